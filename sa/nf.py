"""A normal form of a function under behaviour-preserving rewrites, used for one question only: is this function the pinned
function written differently?

`nf_text(fn)` rewrites a private copy of the function with rules that are each an equivalence of Python programs (under the
assumptions listed with the rule) and returns the text of the result. When the normal form of a function of the tree under
analysis equals the normal form of the same function of the pinned tree (source kept in reference/locals.json), the two are
equivalent and the rules are shown the pinned function; a function that is *not* recognised stays exactly as written (after the
piecewise canonicalisation of sa/canon.py). The comparison never makes a rule pass on code that differs from the pinned code by
anything else than these rewrites:

  N1  docstrings, annotations, `pass`, a trailing `continue` of a loop body and a trailing bare `return` are dropped;
  N2  positional arguments of calls to repository functions whose every definition has the same parameter list become keywords;
  N3  tests are put in negation normal form (De Morgan; `not a < b` = `a >= b`, a total order being assumed for `<`-families;
      `not all(p ..)` = `any(not p ..)`), comparisons are oriented to `<`/`<=` (symmetric ones: variable operand first, then by binding order of the names), `x in (a, b)` is spelt `x == a or x == b`,
      `len(x) > 0` as a test is spelt `x`, and-of-and is flattened, `all(map(lambda v: p, xs))` is spelt `all(p for v in xs)`;
  N4  `if`: what follows an if/elif/else with an arm that leaves belongs to the one arm that stays (guard clauses); a jump directly
      behind an if ends every arm that stays; `if a: X elif b: X` is `if a or b: X`; `P if c else Q` as a test is `(c and P) or (not c and Q)`; nested ifs without else are one
      conjunction; of `if c: A else: B` and `if not c: B else: A` the one whose test has fewer negations (then the smaller text);
  N5  `for x in (a, b): BODY` over a literal of names is BODY[a]; BODY[b]; `if c: del X[k] else: del Y[k]` is `del (X if c else Y)[k]`;
      collector loops: `for t in S: [if c:] L.append(e)` is `L.extend(e for t in S if c)`; `L = []` directly followed by it is
      `L = [e for ...]`; the dict analogue; `for t in S: if c: return True` + `return False` is `return any(c for t in S)` (dual: all);
      `for k, v in d.items()` with k unused is `for v in d.values()`;
  N6  locals bound once are substituted where sa/canon.inline_new_locals allows it (nothing between binding and use can change
      the value; an expression with effects is moved only to a single use with nothing in between);
  N6b a second `v = E` under a first one that still holds is dropped; `v = A; if c: v = B` is `v = B if c else A`; `v = E; return f(v)`
      is `return f(E)`; `True if a else b` is `a or b` for truth-valued a, b (and the three siblings); `d.update({k: v for k, v in e.items()})`
      is `d.update(e)`;
  N6f a statement behind an if-chain that consumes a local every staying arm ends by computing joins the arms; a local every binding
      of which is directly followed by the statement holding its only read is substituted there;
  N6c a function defined inside the function and only ever called by name (one returned expression, a decision list, or a
      straight-line procedure) is substituted at its calls;
  N6d a pure search with a found-flag (`for..: for..: if c: <acts>; flag = True; break` / `if flag: break`): the acts are done right
      behind the loops under `if flag:`; `if t: A` directly followed by `if t: B else: C` is `if t: A; B else: C` (t a local name);
  N6e `a, b = x, y` (names) is `a = x; b = y`; `v = list(X); v.sort(key=k)` is `v = sorted(X, key=k)`; `list(sorted(..))` is `sorted(..)`; `attrgetter('a', 'b')` is `lambda v: (v.a, v.b)`;
      `v.reverse(); return v` for a list built here and held by nobody else is `return v[::-1]`; `sum(len(x) for x in S) == 0` is `not any(S)`;
  N7  `x = x op e` is `x op= e`; `v = <constant or empty container>` for a local v sinks past statements that do not mention v
      and into both arms of an if/else;
  N8  bound names (locals, comprehension variables, lambda parameters) are numbered in order of appearance.
"""
from __future__ import annotations

import ast
from typing import Dict, List, Optional, Sequence, Set

from . import canon

JUMPS = canon.JUMPS
NEG = canon.NEG


def _clone_fn(fn: ast.AST) -> ast.AST:
    return ast.parse(ast.unparse(fn)).body[0]


def _u(e) -> str:
    return ast.unparse(e)


# ---------------------------------------------------------------------------------------------------------- N1
class _Strip(ast.NodeTransformer):
    def visit_FunctionDef(self, node):
        self.generic_visit(node)
        node.returns = None
        for a in node.args.args + node.args.kwonlyargs + node.args.posonlyargs:
            a.annotation = None
        if node.args.vararg:
            node.args.vararg.annotation = None
        if node.args.kwarg:
            node.args.kwarg.annotation = None
        if node.body and isinstance(node.body[0], ast.Expr) and isinstance(node.body[0].value, ast.Constant) and isinstance(node.body[0].value.value, str):
            node.body = node.body[1:] or [ast.Pass()]
        return node

    def visit_AnnAssign(self, node):
        self.generic_visit(node)
        if node.value is None:
            return None
        return ast.copy_location(ast.Assign(targets=[node.target], value=node.value), node)


def _blocks(node):
    for n in ast.walk(node):
        for f in ("body", "orelse", "finalbody"):
            b = getattr(n, f, None)
            if isinstance(b, list) and (not b or isinstance(b[0], ast.stmt)):
                yield n, f, b


def _drop_noise(fn) -> bool:
    changed = False
    for owner, f, b in list(_blocks(fn)):
        if isinstance(owner, (ast.Module,)):
            continue
        keep = [s for s in b if not isinstance(s, ast.Pass)]
        if len(keep) != len(b):
            changed = True
        # trailing `continue` of a loop body, trailing bare return of the function
        if isinstance(owner, (ast.For, ast.While)) and f == "body" and keep and isinstance(keep[-1], ast.Continue):
            keep = keep[:-1]
            changed = True
        if owner is fn and f == "body" and keep and isinstance(keep[-1], ast.Return) and keep[-1].value is None:
            keep = keep[:-1]
            changed = True
        b[:] = keep
    # empty blocks: an empty `else` disappears, an empty body gets `pass` back at the very end (see _finish)
    return changed


def _tail_position_continue(fn) -> bool:
    """`if c: X; continue` as the last statement of a loop body (or of an if/else arm in that position): drop the continue."""
    changed = False

    def tail(block: List[ast.stmt]):
        nonlocal changed
        if not block:
            return
        s = block[-1]
        if isinstance(s, ast.Continue):
            block.pop()
            changed = True
            return
        if isinstance(s, ast.If):
            tail(s.body)
            tail(s.orelse)
    for n in ast.walk(fn):
        if isinstance(n, (ast.For, ast.While)):
            tail(n.body)
    return changed


# ---------------------------------------------------------------------------------------------------------- N3
def _cmp(l, op, r):
    return ast.Compare(left=l, ops=[op], comparators=[r])


def nnf(e: ast.AST, neg: bool = False, test: bool = False) -> ast.AST:
    """Negation normal form of a truth-valued expression; `neg` asks for the form of `not e`."""
    if isinstance(e, ast.UnaryOp) and isinstance(e.op, ast.Not):
        return nnf(e.operand, not neg, test)
    if _is_tt(e):
        if not neg:
            return e
        bits = "".join("1" if c == "0" else "0" for c in e.args[0].value)
        return ast.Call(func=ast.Name(id="_tt", ctx=ast.Load()), args=[ast.Constant(value=bits)] + list(e.args[1:]), keywords=[])
    if isinstance(e, ast.BoolOp):
        op = e.op
        if neg:
            op = ast.Or() if isinstance(op, ast.And) else ast.And()
        vals: List[ast.AST] = []
        for v in e.values:
            w = nnf(v, neg, test)
            if isinstance(w, ast.BoolOp) and type(w.op) is type(op):
                vals += w.values
            else:
                vals.append(w)
        return ast.BoolOp(op=op, values=vals)
    if isinstance(e, ast.Compare) and len(e.ops) == 1:
        op, l, r = e.ops[0], e.left, e.comparators[0]
        t = type(op)
        if neg and t in NEG:
            t = NEG[t]
            neg = False
        # orientation
        if t is ast.Gt:
            l, r, t = r, l, ast.Lt
        elif t is ast.GtE:
            l, r, t = r, l, ast.LtE
        elif t in (ast.Eq, ast.NotEq, ast.Is, ast.IsNot) and _sym_key(r) < _sym_key(l):
            l, r = r, l
        if t in (ast.In, ast.NotIn) and isinstance(r, (ast.Tuple, ast.List, ast.Set)) and 1 <= len(r.elts) <= 6:
            cop, bop = (ast.Eq, ast.Or) if t is ast.In else (ast.NotEq, ast.And)
            vals = [_cmp(l, cop(), x) for x in r.elts]
            out = vals[0] if len(vals) == 1 else ast.BoolOp(op=bop(), values=vals)
            return _not(out) if neg else out
        if test and isinstance(l, ast.Call) and isinstance(l.func, ast.Name) and l.func.id == "len" and len(l.args) == 1 and not l.keywords:
            # 0 < len(x), len(x) != 0, 1 <= len(x)
            pass
        out = _cmp(l, t(), r)
        out = _len_truth(out, test)
        return _not(out) if neg else out
    if isinstance(e, ast.Call) and isinstance(e.func, ast.Name) and e.func.id in ("all", "any") and len(e.args) == 1 and not e.keywords:
        g = _as_gen(e.args[0])
        if g is not None:
            name = e.func.id
            if neg:
                name = "any" if name == "all" else "all"
            elt = nnf(g.elt, neg, True)
            return ast.Call(func=ast.Name(id=name, ctx=ast.Load()), args=[ast.GeneratorExp(elt=elt, generators=g.generators)], keywords=[])
    return _not(e) if neg else e


def _not(e):
    return ast.UnaryOp(op=ast.Not(), operand=e)


_BIND: Dict[str, int] = {}


def _constant_like(e: ast.AST) -> bool:
    if isinstance(e, ast.Constant):
        return True
    if isinstance(e, ast.UnaryOp) and isinstance(e.operand, ast.Constant):
        return True
    root = e
    while isinstance(root, (ast.Attribute, ast.Call)):
        root = root.func if isinstance(root, ast.Call) else root.value
    return isinstance(root, ast.Name) and root.id[:1].isupper() and root.id not in _BIND


def _sym_key(e: ast.AST):
    """Order of the operands of a symmetric comparison: variable things before constant-like things (None, numbers, `TaskState.X`),
    then by where the names they mention are bound in the function (parameters, then locals in binding order; not by where they are
    first *used*, which mirroring a comparison changes), then by text."""
    names = [n.id for n in canon.walk_order(e) if isinstance(n, ast.Name)]
    return (1 if _constant_like(e) else 0, [_BIND.get(n, 10 ** 6) for n in names], _u(e))


def _is_tt(e) -> bool:
    return isinstance(e, ast.Call) and isinstance(e.func, ast.Name) and e.func.id == "_tt"


def _pure_atom(e: ast.AST) -> bool:
    for n in ast.walk(e):
        if isinstance(n, ast.Call):
            f = n.func
            if not ((isinstance(f, ast.Name) and f.id in canon.PURE_FUNCS) or (isinstance(f, ast.Attribute) and f.attr in canon.PURE_METHODS)):
                return False
        if isinstance(n, (ast.Subscript, ast.Await, ast.Yield, ast.YieldFrom, ast.NamedExpr, ast.Lambda, ast.ListComp, ast.GeneratorExp, ast.DictComp, ast.SetComp)):
            return False
    return True


def _all_pure(e: ast.AST) -> bool:
    if isinstance(e, ast.BoolOp):
        return all(_all_pure(v) for v in e.values)
    if isinstance(e, ast.UnaryOp) and isinstance(e.op, ast.Not):
        return _all_pure(e.operand)
    if _is_tt(e):
        return True
    return _pure_atom(_atom(e)[0])


def truth_table(e: ast.AST) -> ast.AST:
    """Canonical form of the effect-free parts of an and/or combination: the whole of it when every atom is effect-free, otherwise
    every maximal run of adjacent effect-free operands (operands are never moved across one that may have an effect)."""
    if not isinstance(e, ast.BoolOp):
        return e
    whole = _tt_whole(e)
    if whole is not e:
        return whole
    vals = [truth_table(v) if isinstance(v, ast.BoolOp) else v for v in e.values]
    out: List[ast.AST] = []
    run: List[ast.AST] = []

    def flush():
        if len(run) >= 2:
            t = _tt_whole(ast.BoolOp(op=e.op, values=list(run)))
            if _is_tt(t) or not isinstance(t, ast.BoolOp):
                out.append(t)
            else:
                out.extend(run)
        else:
            out.extend(run)
        run.clear()
    for v in vals:
        if _all_pure(v):
            run.append(v)
        else:
            flush()
            out.append(v)
    flush()
    if len(out) == 1:
        return out[0]
    return ast.BoolOp(op=e.op, values=out)


def _atom(e: ast.AST):
    """-> (positive atom expression, negated?)"""
    if isinstance(e, ast.UnaryOp) and isinstance(e.op, ast.Not):
        a, n = _atom(e.operand)
        return a, not n
    if isinstance(e, ast.Compare) and len(e.ops) == 1:
        op, l, r = e.ops[0], e.left, e.comparators[0]
        if isinstance(op, ast.NotEq):
            return _cmp(l, ast.Eq(), r), True
        if isinstance(op, ast.NotIn):
            return _cmp(l, ast.In(), r), True
        if isinstance(op, ast.IsNot):
            return _cmp(l, ast.Is(), r), True
        if isinstance(op, ast.LtE):
            return _cmp(r, ast.Lt(), l), True
    return e, False


def _tt_whole(e: ast.AST) -> ast.AST:
    """An and/or/not combination of at most 5 effect-free atoms -> `_tt('<bits>', atom, ...)` with the atoms sorted by text."""
    if not isinstance(e, ast.BoolOp):
        return e

    def expand(x):
        if isinstance(x, ast.BoolOp):
            return ast.BoolOp(op=x.op, values=[expand(v) for v in x.values])
        if isinstance(x, ast.UnaryOp) and isinstance(x.op, ast.Not):
            return _not(expand(x.operand))
        if _is_tt(x):
            bits, ats = x.args[0].value, list(x.args[1:])
            terms = []
            for k, bit in enumerate(bits):
                if bit == "1":
                    terms.append(ast.BoolOp(op=ast.And(), values=[a if (k >> i) & 1 else _not(a) for i, a in enumerate(ats)]))
            return ast.BoolOp(op=ast.Or(), values=terms) if len(terms) > 1 else (terms[0] if terms else x)
        return x
    original = e
    e = expand(e)
    leaves: List[ast.AST] = []

    def collect(x):
        if isinstance(x, ast.BoolOp):
            for v in x.values:
                collect(v)
        elif isinstance(x, ast.UnaryOp) and isinstance(x.op, ast.Not) and isinstance(x.operand, ast.BoolOp):
            collect(x.operand)
        else:
            leaves.append(x)
    collect(e)
    atoms: Dict[str, ast.AST] = {}
    for x in leaves:
        a, _n = _atom(x)
        if not _pure_atom(a) or _is_tt(a):
            return original
        atoms.setdefault(_u(a), a)
    names = sorted(atoms)
    if not (2 <= len(names) <= 5):
        return original

    def ev(x, env) -> bool:
        if isinstance(x, ast.BoolOp):
            vals = [ev(v, env) for v in x.values]
            return all(vals) if isinstance(x.op, ast.And) else any(vals)
        if isinstance(x, ast.UnaryOp) and isinstance(x.op, ast.Not) and isinstance(x.operand, ast.BoolOp):
            return not ev(x.operand, env)
        a, n = _atom(x)
        return env[_u(a)] != n
    bits = ""
    for k in range(2 ** len(names)):
        env = {nm: bool((k >> i) & 1) for i, nm in enumerate(names)}
        bits += "1" if ev(e, env) else "0"
    # atoms the value does not depend on are dropped
    keep = []
    for i, nm in enumerate(names):
        dep = any(bits[k] != bits[k ^ (1 << i)] for k in range(len(bits)))
        if dep:
            keep.append(i)
    if len(keep) != len(names):
        if not keep:
            return original
        names2 = [names[i] for i in keep]
        bits2 = ""
        for k in range(2 ** len(names2)):
            full = 0
            for j, i in enumerate(keep):
                if (k >> j) & 1:
                    full |= (1 << i)
            bits2 += bits[full]
        names, bits = names2, bits2
        if len(names) == 1:
            a = atoms[names[0]]
            return a if bits == "01" else _not(a)
    return ast.Call(func=ast.Name(id="_tt", ctx=ast.Load()), args=[ast.Constant(value=bits)] + [atoms[nm] for nm in names], keywords=[])


def _len_truth(c: ast.Compare, test: bool):
    """`0 < len(x)` / `len(x) != 0` / `1 <= len(x)` as a test is `x`; `len(x) == 0` / `len(x) < 1` is `not x`."""
    if not test:
        return c
    op, l, r = c.ops[0], c.left, c.comparators[0]

    def is_len(x):
        return isinstance(x, ast.Call) and isinstance(x.func, ast.Name) and x.func.id == "len" and len(x.args) == 1 and not x.keywords

    def const(x, v):
        return isinstance(x, ast.Constant) and x.value == v and not isinstance(x.value, bool)
    if is_len(r) and ((isinstance(op, ast.Lt) and const(l, 0)) or (isinstance(op, ast.LtE) and const(l, 1))):
        return r.args[0]
    if is_len(l) and isinstance(op, ast.NotEq) and const(r, 0):
        return l.args[0]
    if is_len(l) and ((isinstance(op, ast.Eq) and const(r, 0)) or (isinstance(op, ast.Lt) and const(r, 1))):
        return _not(l.args[0])
    if is_len(r) and isinstance(op, ast.Eq) and const(l, 0):
        return _not(r.args[0])
    return c


def _as_gen(a: ast.AST) -> Optional[ast.GeneratorExp]:
    if isinstance(a, ast.GeneratorExp):
        return a
    if isinstance(a, ast.ListComp):
        return ast.GeneratorExp(elt=a.elt, generators=a.generators)
    # map(lambda v: p, xs)
    if isinstance(a, ast.Call) and isinstance(a.func, ast.Name) and a.func.id == "map" and len(a.args) == 2 and isinstance(a.args[0], ast.Lambda) \
            and len(a.args[0].args.args) == 1 and not a.args[0].args.defaults:
        lam = a.args[0]
        return ast.GeneratorExp(elt=lam.body, generators=[ast.comprehension(target=ast.Name(id=lam.args.args[0].arg, ctx=ast.Store()),
                                                                           iter=a.args[1], ifs=[], is_async=0)])
    return None


def _neg_count(e: ast.AST) -> int:
    return sum(1 for n in ast.walk(e) if (isinstance(n, ast.UnaryOp) and isinstance(n.op, ast.Not))
               or (isinstance(n, ast.Compare) and any(isinstance(o, (ast.NotEq, ast.NotIn, ast.IsNot)) for o in n.ops)))


def _boolean_valued(e: ast.AST) -> bool:
    if isinstance(e, ast.Compare):
        return True
    if isinstance(e, ast.UnaryOp) and isinstance(e.op, ast.Not):
        return True
    if isinstance(e, ast.BoolOp):
        return all(_boolean_valued(v) for v in e.values)
    if isinstance(e, ast.Call) and isinstance(e.func, ast.Name) and e.func.id in ("isinstance", "all", "any", "bool", "callable", "hasattr", "_tt"):
        return True
    if isinstance(e, ast.IfExp):
        return _boolean_valued(e.body) and _boolean_valued(e.orelse)
    return isinstance(e, ast.Constant) and isinstance(e.value, bool)


def _test_ifexp(t: ast.AST) -> ast.AST:
    """`P if c else Q` used as a test is `(c and P) or (not c and Q)` (same operands evaluated, in the same order)."""
    if isinstance(t, ast.IfExp):
        return ast.BoolOp(op=ast.Or(), values=[ast.BoolOp(op=ast.And(), values=[t.test, _test_ifexp(t.body)]),
                                              ast.BoolOp(op=ast.And(), values=[_not(ast.parse(ast.unparse(t.test), mode="eval").body), _test_ifexp(t.orelse)])])
    return t


class _Tests(ast.NodeTransformer):
    """N3 on every test position and on and/or/not/quantifier expressions elsewhere."""

    def visit_If(self, node):
        self.generic_visit(node)
        node.test = truth_table(nnf(_test_ifexp(node.test), False, True))
        return node

    def visit_While(self, node):
        self.generic_visit(node)
        node.test = truth_table(nnf(node.test, False, True))
        return node

    def visit_IfExp(self, node):
        self.generic_visit(node)
        # True if a else b  =  a or b   (a truth-valued: comparison / not / isinstance / and-or of those), and the three siblings
        if _boolean_valued(node.test):
            tb = isinstance(node.body, ast.Constant) and isinstance(node.body.value, bool)
            to = isinstance(node.orelse, ast.Constant) and isinstance(node.orelse.value, bool)
            if tb and not to and _boolean_valued(node.orelse):
                return nnf(ast.BoolOp(op=ast.Or(), values=[node.test, node.orelse]) if node.body.value
                           else ast.BoolOp(op=ast.And(), values=[_not(node.test), node.orelse]), False, False)
            if to and not tb and _boolean_valued(node.body):
                return nnf(ast.BoolOp(op=ast.And(), values=[node.test, node.body]) if not node.orelse.value
                           else ast.BoolOp(op=ast.Or(), values=[_not(node.test), node.body]), False, False)
        # a nested choice that repeats one outcome: one choice on the combined test (tests keep their order and short-circuiting)
        for _ in range(4):
            b, o = node.body, node.orelse
            if isinstance(b, ast.IfExp) and _u(b.body) == _u(o):
                node.test, node.body = ast.BoolOp(op=ast.And(), values=[node.test, _not(b.test)]), b.orelse
            elif isinstance(b, ast.IfExp) and _u(b.orelse) == _u(o):
                node.test, node.body = ast.BoolOp(op=ast.And(), values=[node.test, b.test]), b.body
            elif isinstance(o, ast.IfExp) and _u(o.body) == _u(b):
                node.test, node.orelse = ast.BoolOp(op=ast.Or(), values=[node.test, o.test]), o.orelse
            elif isinstance(o, ast.IfExp) and _u(o.orelse) == _u(b):
                node.test, node.body, node.orelse = ast.BoolOp(op=ast.And(), values=[_not(node.test), o.test]), o.body, b
            else:
                break
        node.test = truth_table(nnf(node.test, False, True))
        t, n = node.test, nnf(node.test, True, True)
        if (_neg_count(n), len(_u(n)), _u(n)) < (_neg_count(t), len(_u(t)), _u(t)):
            node.test, node.body, node.orelse = n, node.orelse, node.body
        return node

    def visit_comprehension(self, node):
        self.generic_visit(node)
        ifs = []
        for c in node.ifs:
            w = nnf(c, False, True)
            ifs += w.values if isinstance(w, ast.BoolOp) and isinstance(w.op, ast.And) else [w]
        node.ifs = ifs
        return node

    def visit_UnaryOp(self, node):
        self.generic_visit(node)
        if isinstance(node.op, ast.Not):
            return nnf(node, False, False)
        return node

    def visit_BoolOp(self, node):
        self.generic_visit(node)
        return nnf(node, False, False)

    def visit_Compare(self, node):
        self.generic_visit(node)
        # sum(len(x) for x in S) == 0  is  not any(S)   (non-emptiness is truthiness, as for `len(x) > 0` in tests)
        if len(node.ops) == 1 and isinstance(node.ops[0], (ast.Eq, ast.NotEq, ast.Gt)) and isinstance(node.comparators[0], ast.Constant) and node.comparators[0].value == 0 \
                and isinstance(node.left, ast.Call) and isinstance(node.left.func, ast.Name) and node.left.func.id == "sum" and len(node.left.args) == 1 \
                and isinstance(node.left.args[0], (ast.GeneratorExp, ast.ListComp)):
            g = node.left.args[0]
            if len(g.generators) == 1 and not g.generators[0].ifs and isinstance(g.generators[0].target, ast.Name) and isinstance(g.elt, ast.Call) \
                    and isinstance(g.elt.func, ast.Name) and g.elt.func.id == "len" and len(g.elt.args) == 1 and isinstance(g.elt.args[0], ast.Name) \
                    and g.elt.args[0].id == g.generators[0].target.id:
                anyc = ast.Call(func=ast.Name(id="any", ctx=ast.Load()), args=[g.generators[0].iter], keywords=[])
                return _not(anyc) if isinstance(node.ops[0], ast.Eq) else anyc
        return nnf(node, False, False)

    def visit_Call(self, node):
        self.generic_visit(node)
        if isinstance(node.func, ast.Name) and node.func.id in ("all", "any"):
            return nnf(node, False, False)
        # list(sorted(...)) is sorted(...): sorted already returns a new list
        if isinstance(node.func, ast.Name) and node.func.id == "list" and len(node.args) == 1 and not node.keywords and isinstance(node.args[0], ast.Call) \
                and isinstance(node.args[0].func, ast.Name) and node.args[0].func.id == "sorted":
            return node.args[0]
        # attrgetter('a', 'b') is lambda x: (x.a, x.b); attrgetter('a') is lambda x: x.a
        if isinstance(node.func, ast.Name) and node.func.id == "attrgetter" and node.args and not node.keywords \
                and all(isinstance(a, ast.Constant) and isinstance(a.value, str) and a.value.isidentifier() for a in node.args):
            var = ast.Name(id="_ag", ctx=ast.Load())
            elts = [ast.Attribute(value=ast.Name(id="_ag", ctx=ast.Load()), attr=a.value, ctx=ast.Load()) for a in node.args]
            body = elts[0] if len(elts) == 1 else ast.Tuple(elts=elts, ctx=ast.Load())
            return ast.Lambda(args=ast.arguments(posonlyargs=[], args=[ast.arg(arg="_ag")], kwonlyargs=[], kw_defaults=[], defaults=[]), body=body)
        # filter(lambda v: c, xs) / map(lambda v: e, xs) consumed by list()/len(list())/set()/sum()/...: the comprehension
        if isinstance(node.func, ast.Name) and node.func.id in ("list", "set", "tuple", "sum", "sorted", "min", "max", "frozenset") and len(node.args) >= 1 \
                and isinstance(node.args[0], ast.Call) and isinstance(node.args[0].func, ast.Name) and node.args[0].func.id in ("filter", "map") \
                and len(node.args[0].args) == 2 and isinstance(node.args[0].args[0], ast.Lambda) and len(node.args[0].args[0].args.args) == 1 \
                and not node.args[0].args[0].args.defaults:
            inner = node.args[0]
            lam = inner.args[0]
            var = ast.Name(id=lam.args.args[0].arg, ctx=ast.Store())
            if inner.func.id == "filter":
                w = nnf(lam.body, False, True)
                conds = w.values if isinstance(w, ast.BoolOp) and isinstance(w.op, ast.And) else [w]
                gen = ast.GeneratorExp(elt=ast.Name(id=var.id, ctx=ast.Load()), generators=[ast.comprehension(target=var, iter=inner.args[1], ifs=list(conds), is_async=0)])
            else:
                gen = ast.GeneratorExp(elt=lam.body, generators=[ast.comprehension(target=var, iter=inner.args[1], ifs=[], is_async=0)])
            node.args[0] = gen
        if isinstance(node.func, ast.Name) and node.func.id == "list" and len(node.args) == 1 and not node.keywords and isinstance(node.args[0], ast.GeneratorExp):
            return ast.ListComp(elt=node.args[0].elt, generators=node.args[0].generators)
        if isinstance(node.func, ast.Name) and node.func.id == "set" and len(node.args) == 1 and not node.keywords and isinstance(node.args[0], ast.GeneratorExp):
            return ast.SetComp(elt=node.args[0].elt, generators=node.args[0].generators)
        if isinstance(node.func, ast.Attribute) and node.func.attr == "update" and len(node.args) == 1 and not node.keywords \
                and isinstance(node.args[0], (ast.GeneratorExp, ast.ListComp)) and isinstance(node.args[0].elt, ast.Tuple) and len(node.args[0].elt.elts) == 2 \
                and not _mentions(node.args[0].generators, node.args[0].elt, node.func.value):
            # a mapping updated from (key, value) pairs: the dictionary display of the same pairs (same keys, same order, last one wins)
            node.args[0] = ast.DictComp(key=node.args[0].elt.elts[0], value=node.args[0].elt.elts[1], generators=node.args[0].generators)
        if isinstance(node.func, ast.Attribute) and node.func.attr == "update" and len(node.args) == 1 and isinstance(node.args[0], ast.DictComp):
            dc = node.args[0]
            g = dc.generators
            if len(g) == 1 and not g[0].ifs and isinstance(g[0].target, ast.Tuple) and len(g[0].target.elts) == 2 \
                    and all(isinstance(e, ast.Name) for e in g[0].target.elts) and isinstance(dc.key, ast.Name) and isinstance(dc.value, ast.Name) \
                    and dc.key.id == g[0].target.elts[0].id and dc.value.id == g[0].target.elts[1].id \
                    and isinstance(g[0].iter, ast.Call) and isinstance(g[0].iter.func, ast.Attribute) and g[0].iter.func.attr == "items" and not g[0].iter.args:
                node.args[0] = g[0].iter.func.value
        # generator / list argument of a reducer: one spelling
        if ((isinstance(node.func, ast.Name) and node.func.id in ("sum", "set", "list", "tuple", "sorted", "min", "max", "frozenset", "quicksum"))
                or (isinstance(node.func, ast.Attribute) and node.func.attr in ("extend", "update", "join", "quicksum"))) and len(node.args) >= 1 \
                and isinstance(node.args[0], ast.ListComp):
            node.args[0] = ast.GeneratorExp(elt=node.args[0].elt, generators=node.args[0].generators)
        return node


# ---------------------------------------------------------------------------------------------------------- N4
def _ifexp(test, a, b):
    t, n = test, nnf(test, True, True)
    if (_neg_count(n), len(_u(n)), _u(n)) < (_neg_count(t), len(_u(t)), _u(t)):
        return ast.IfExp(test=n, body=b, orelse=a)
    return ast.IfExp(test=t, body=a, orelse=b)


def _ends_in_jump(body):
    return canon._ends_in_jump(body)


def _neq_orientation(fn) -> bool:
    """`if a == b: X elif b < a: Y else: Z`: in the elif chain a != b holds, so `b < a` is `not a < b` (total order): one orientation,
    the operand that appears first in the function on the left."""
    changed = False
    first: Dict[str, int] = {}
    for k, n in enumerate(canon.walk_order(fn)):
        if isinstance(n, ast.Name) and n.id not in first:
            first[n.id] = k

    def key(e):
        return [first.get(n.id, 0) for n in canon.walk_order(e) if isinstance(n, ast.Name)], _u(e)

    def chain(s: ast.If, ctx):
        nonlocal changed
        t = s.test
        if s.orelse and isinstance(t, ast.Compare) and len(t.ops) == 1 and isinstance(t.ops[0], ast.Lt) \
                and frozenset((_u(t.left), _u(t.comparators[0]))) in ctx and key(t.comparators[0]) < key(t.left):
            s.test = _cmp(t.comparators[0], ast.Lt(), t.left)
            s.body, s.orelse = s.orelse, s.body
            changed = True
        if isinstance(t, ast.Compare) and len(t.ops) == 1 and isinstance(t.ops[0], ast.Eq):
            ctx = ctx | {frozenset((_u(t.left), _u(t.comparators[0])))}
        if len(s.orelse) == 1 and isinstance(s.orelse[0], ast.If):
            chain(s.orelse[0], ctx)
    def chain_e(s: ast.IfExp, ctx):
        nonlocal changed
        t = s.test
        if isinstance(t, ast.Compare) and len(t.ops) == 1 and isinstance(t.ops[0], ast.Lt) \
                and frozenset((_u(t.left), _u(t.comparators[0]))) in ctx and key(t.comparators[0]) < key(t.left):
            s.test = _cmp(t.comparators[0], ast.Lt(), t.left)
            s.body, s.orelse = s.orelse, s.body
            changed = True
        if isinstance(t, ast.Compare) and len(t.ops) == 1 and isinstance(t.ops[0], ast.Eq):
            ctx = ctx | {frozenset((_u(t.left), _u(t.comparators[0])))}
        if isinstance(s.orelse, ast.IfExp):
            chain_e(s.orelse, ctx)
    inner = set()
    for n in ast.walk(fn):
        if isinstance(n, ast.If) and len(n.orelse) == 1 and isinstance(n.orelse[0], ast.If):
            inner.add(id(n.orelse[0]))
        if isinstance(n, ast.IfExp) and isinstance(n.orelse, ast.IfExp):
            inner.add(id(n.orelse))
    # `a != b and (X if b < a else Y)`: the operands behind an inequality are evaluated knowing it
    guarded = set()
    for n in ast.walk(fn):
        if isinstance(n, ast.BoolOp) and isinstance(n.op, ast.And):
            ctx = frozenset()
            for v in n.values:
                if isinstance(v, ast.IfExp) and ctx:
                    chain_e(v, ctx)
                    guarded.add(id(v))
                if isinstance(v, ast.Compare) and len(v.ops) == 1 and isinstance(v.ops[0], ast.NotEq):
                    ctx = ctx | {frozenset((_u(v.left), _u(v.comparators[0])))}
    for n in ast.walk(fn):
        if isinstance(n, ast.If) and id(n) not in inner:
            chain(n, frozenset())
        if isinstance(n, ast.IfExp) and id(n) not in inner and id(n) not in guarded:
            chain_e(n, frozenset())
    return changed


def _leaf_arms(s: ast.If):
    """The arms of an if/elif/else chain as (owner If, field) pairs; a missing else is the arm (last If, 'orelse') holding []."""
    out = []
    cur = s
    while True:
        out.append((cur, "body"))
        if len(cur.orelse) == 1 and isinstance(cur.orelse[0], ast.If):
            cur = cur.orelse[0]
            continue
        out.append((cur, "orelse"))
        return out


def _distributes(fn, s: ast.If, staying, rest) -> bool:
    """Every arm of `s` that stays ends with `v = <expr>` for one local v, `rest[0]` reads v, and v is read nowhere else."""
    lasts = []
    for o, fld in staying:
        arm = [x for x in getattr(o, fld) if not isinstance(x, ast.Pass)]
        if not arm or not (isinstance(arm[-1], ast.Assign) and len(arm[-1].targets) == 1 and isinstance(arm[-1].targets[0], ast.Name)):
            return False
        lasts.append(arm[-1])
    names = {a.targets[0].id for a in lasts}
    if len(names) != 1:
        return False
    if all(len([x for x in getattr(o, fld) if not isinstance(x, ast.Pass)]) == 1 for o, fld in staying) and len(staying) == len(_leaf_arms(s)) == 2:
        return False  # `if c: v = a else: v = b` is a conditional expression (handled below)
    v = next(iter(names))
    loads_here = [n for n in ast.walk(rest[0]) if isinstance(n, ast.Name) and n.id == v and isinstance(n.ctx, ast.Load)]
    if len(loads_here) != 1:
        return False
    all_loads = [n for n in ast.walk(fn) if isinstance(n, ast.Name) and n.id == v and isinstance(n.ctx, ast.Load)]
    all_stores = [n for n in ast.walk(fn) if isinstance(n, ast.Name) and n.id == v and isinstance(n.ctx, ast.Store)]
    return len(all_loads) == 1 and len(all_stores) == len(lasts)


def _inline_adjacent_webs(fn) -> bool:
    """A local every binding of which (`v = E`) is directly followed by a statement that holds its only read: E goes there."""
    changed = False
    loads: Dict[str, List[ast.Name]] = {}
    stores: Dict[str, List[ast.Name]] = {}
    for n in ast.walk(fn):
        if isinstance(n, ast.Name):
            (stores if isinstance(n.ctx, (ast.Store, ast.Del)) else loads).setdefault(n.id, []).append(n)
    params = {a.arg for a in fn.args.args + fn.args.kwonlyargs + fn.args.posonlyargs}
    for v, sts in stores.items():
        if v in params or len(sts) < 2 or len(loads.get(v, [])) != len(sts):
            continue
        pairs = []
        for owner, f, b in _blocks(fn):
            for i, st in enumerate(b):
                if isinstance(st, ast.Assign) and len(st.targets) == 1 and isinstance(st.targets[0], ast.Name) and st.targets[0].id == v:
                    if i + 1 >= len(b):
                        pairs = None
                        break
                    nxt = b[i + 1]
                    heads = canon._own_exprs(nxt) if not isinstance(nxt, (ast.For, ast.While, ast.If)) else []
                    uses = [n for h in heads for n in ast.walk(h) if isinstance(n, ast.Name) and n.id == v and isinstance(n.ctx, ast.Load)]
                    first = next((n for h in heads for n in canon.walk_order(h) if isinstance(n, (ast.Name, ast.Call))), None)
                    if len(uses) != 1 or any(isinstance(n, (ast.Lambda, ast.GeneratorExp, ast.ListComp, ast.DictComp, ast.SetComp)) for h in heads for n in ast.walk(h)):
                        pairs = None
                        break
                    impure = canon.roots_attrs(st.value)[2]
                    if impure and uses[0] is not first:
                        pairs = None
                        break
                    pairs.append((b, st, nxt, uses[0]))
            if pairs is None:
                break
        if not pairs or len(pairs) != len(sts):
            continue
        for b, st, nxt, use in pairs:
            canon._replace(nxt, use, st.value)
            b.remove(st)
        ast.fix_missing_locations(fn)
        changed = True
        break
    return changed


def _ifs(fn) -> bool:
    changed = _neq_orientation(fn)
    for owner, f, b in list(_blocks(fn)):
        i = 0
        while i < len(b):
            s = b[i]
            if isinstance(s, ast.If):
                # what follows an if that has an arm that leaves belongs to the arms that do not leave
                rest = b[i + 1:]
                if rest:
                    arms = _leaf_arms(s)
                    staying = [(o, fld) for o, fld in arms if not _ends_in_jump(getattr(o, fld))]
                    leaving = len(arms) - len(staying)
                    if not staying:
                        del b[i + 1:]  # unreachable
                        changed = True
                    elif leaving and len(staying) == 1:
                        o, fld = staying[0]
                        arm = getattr(o, fld)  # mutated in place: other traversals hold this very list
                        arm[:] = [x for x in arm if not isinstance(x, ast.Pass)] + rest
                        del b[i + 1:]
                        changed = True
                    elif len(staying) >= 2 and isinstance(rest[0], (ast.Assign, ast.Expr)) and _distributes(fn, s, staying, rest):
                        # every staying arm ends by computing a local that only the next statement consumes: that statement joins the arms
                        for o, fld in staying:
                            getattr(o, fld).append(_clone_stmt(rest[0]))
                        del b[i + 1]
                        changed = True
                    elif isinstance(rest[0], JUMPS):
                        # a jump right behind the if: every arm that stays ends with it
                        for o, fld in staying:
                            arm = getattr(o, fld)
                            arm[:] = [x for x in arm if not isinstance(x, ast.Pass)] + [_clone_stmt(rest[0])]
                        del b[i + 1:]
                        changed = True
                # `else` holding nothing
                if s.orelse and all(isinstance(x, ast.Pass) for x in s.orelse):
                    s.orelse = []
                    changed = True
                if s.body and all(isinstance(x, ast.Pass) for x in s.body) and s.orelse:
                    s.test, s.body, s.orelse = nnf(s.test, True, True), s.orelse, []
                    changed = True
                # if T1: X elif T2: X [else: Z]   ->   if T1 or T2: X [else: Z]
                if len(s.orelse) == 1 and isinstance(s.orelse[0], ast.If) and [_u(x) for x in s.body] == [_u(x) for x in s.orelse[0].body]:
                    nxt = s.orelse[0]
                    s.test = nnf(ast.BoolOp(op=ast.Or(), values=[s.test, nxt.test]), False, True)
                    s.orelse = nxt.orelse
                    changed = True
                    continue
                # if c: (if A: J) else: (if B: J)   ->   if (c and A) or (not c and B): J
                if len(s.body) == 1 and len(s.orelse) == 1 and isinstance(s.body[0], ast.If) and isinstance(s.orelse[0], ast.If) \
                        and not s.body[0].orelse and not s.orelse[0].orelse and len(s.body[0].body) == 1 and isinstance(s.body[0].body[0], JUMPS) \
                        and _u(s.body[0].body[0]) == _u(s.orelse[0].body[0]) and _pure_atom(s.test):
                    A, B = s.body[0], s.orelse[0]
                    s.test = nnf(ast.BoolOp(op=ast.Or(), values=[ast.BoolOp(op=ast.And(), values=[s.test, A.test]),
                                                                 ast.BoolOp(op=ast.And(), values=[nnf(s.test, True, True), B.test])]), False, True)
                    s.body, s.orelse = A.body, []
                    changed = True
                    continue
                # nested ifs without else
                while not s.orelse and len(s.body) == 1 and isinstance(s.body[0], ast.If) and not s.body[0].orelse:
                    inner = s.body[0]
                    s.test = nnf(ast.BoolOp(op=ast.And(), values=[s.test, inner.test]), False, True)
                    s.body = inner.body
                    changed = True
                # both arms one assignment to the same target / one return: a conditional expression
                if len(s.body) == 1 and len(s.orelse) == 1:
                    x, y = s.body[0], s.orelse[0]
                    if isinstance(x, ast.Assign) and isinstance(y, ast.Assign) and len(x.targets) == 1 and len(y.targets) == 1 \
                            and _u(x.targets[0]) == _u(y.targets[0]) and not isinstance(x.targets[0], (ast.Tuple, ast.List)):
                        b[i] = ast.copy_location(ast.Assign(targets=[x.targets[0]], value=_ifexp(s.test, x.value, y.value)), s)
                        changed = True
                        i += 1
                        continue
                    if isinstance(x, ast.Return) and isinstance(y, ast.Return) and x.value is not None and y.value is not None:
                        b[i] = ast.copy_location(ast.Return(value=_ifexp(s.test, x.value, y.value)), s)
                        changed = True
                        i += 1
                        continue
                # both arms `del X[k]` with the same key: one `del (X if c else Y)[k]`
                if len(s.body) == 1 and len(s.orelse) == 1 and isinstance(s.body[0], ast.Delete) and isinstance(s.orelse[0], ast.Delete) \
                        and len(s.body[0].targets) == 1 and len(s.orelse[0].targets) == 1 \
                        and isinstance(s.body[0].targets[0], ast.Subscript) and isinstance(s.orelse[0].targets[0], ast.Subscript) \
                        and _u(s.body[0].targets[0].slice) == _u(s.orelse[0].targets[0].slice):
                    x, y = s.body[0].targets[0], s.orelse[0].targets[0]
                    b[i] = ast.copy_location(ast.Delete(targets=[ast.Subscript(value=_ifexp(s.test, x.value, y.value), slice=x.slice, ctx=ast.Del())]), s)
                    changed = True
                    i += 1
                    continue
                # orientation of if/else
                if s.orelse:
                    t, n = s.test, nnf(s.test, True, True)
                    if (_neg_count(n), len(_u(n)), _u(n)) < (_neg_count(t), len(_u(t)), _u(t)):
                        s.test, s.body, s.orelse = n, s.orelse, s.body
                        changed = True
            i += 1
    return changed


def _hoist_hit_body(fn) -> bool:
    """A pure search with a found-flag: `for a in A: (for b in B:) if c: S...; flag = True; S...; break` `if flag: break`. Nothing runs
    between the hit and the exit of the loops, and the loop variables keep their values, so what is done at the hit can as well be done
    right behind the loops under `if flag:` - the normal form does it there."""
    changed = False
    for owner, f, b in list(_blocks(fn)):
        for i, outer in enumerate(b):
            if not isinstance(outer, ast.For) or outer.orelse:
                continue
            # descend through loops whose body is [inner loop, `if flag: break`] down to [`if c: ...; break`]
            chain = [outer]
            cur = outer
            flag = None
            ok = True
            while True:
                body = [x for x in cur.body if not isinstance(x, ast.Pass)]
                if len(body) == 2 and isinstance(body[0], ast.For) and not body[0].orelse and isinstance(body[1], ast.If) and not body[1].orelse \
                        and isinstance(body[1].test, ast.Name) and len(body[1].body) == 1 and isinstance(body[1].body[0], ast.Break):
                    if flag is not None and flag != body[1].test.id:
                        ok = False
                        break
                    flag = body[1].test.id
                    cur = body[0]
                    chain.append(cur)
                    continue
                break
            if not ok:
                continue
            body = [x for x in cur.body if not isinstance(x, ast.Pass)]
            if not (len(body) == 1 and isinstance(body[0], ast.If) and not body[0].orelse and body[0].body and isinstance(body[0].body[-1], ast.Break)):
                continue
            hit = body[0]
            sets = [x for x in hit.body if isinstance(x, ast.Assign) and len(x.targets) == 1 and isinstance(x.targets[0], ast.Name)
                    and isinstance(x.value, ast.Constant) and x.value.value is True and (flag is None or x.targets[0].id == flag)]
            if len(sets) != 1:
                continue
            flag = sets[0].targets[0].id
            act = [x for x in hit.body[:-1] if x is not sets[0]]
            if not act:
                continue
            # the acts must not leave or re-enter the loops on their own, nor touch the flag
            if any(isinstance(n, (ast.Break, ast.Continue, ast.Return, ast.Yield, ast.YieldFrom)) for x in act for n in ast.walk(x) if not isinstance(n, ast.For) or True
                   if isinstance(n, (ast.Break, ast.Continue, ast.Return, ast.Yield, ast.YieldFrom))):
                # a loop inside the acts may carry its own break/continue: allowed only when every such jump sits in a loop of the acts
                inner_ok = True
                for x in act:
                    for n in ast.walk(x):
                        if isinstance(n, (ast.Return, ast.Yield, ast.YieldFrom)):
                            inner_ok = False
                        if isinstance(n, (ast.Break, ast.Continue)):
                            q_ok = any(isinstance(l, (ast.For, ast.While)) and any(n is y for y in ast.walk(l)) for y0 in act for l in ast.walk(y0))
                            if not q_ok:
                                inner_ok = False
                if not inner_ok:
                    continue
            if any(isinstance(n, ast.Name) and n.id == flag for x in act for n in ast.walk(x)):
                continue
            # the flag is False on entry: `flag = False` right before the loops
            if i == 0 or not (isinstance(b[i - 1], ast.Assign) and len(b[i - 1].targets) == 1 and isinstance(b[i - 1].targets[0], ast.Name)
                              and b[i - 1].targets[0].id == flag and isinstance(b[i - 1].value, ast.Constant) and b[i - 1].value.value is False):
                continue
            hit.body[:] = [sets[0], hit.body[-1]]
            b.insert(i + 1, ast.If(test=ast.Name(id=flag, ctx=ast.Load()), body=act, orelse=[]))
            ast.fix_missing_locations(fn)
            changed = True
            break
    return changed


def _merge_same_test_ifs(fn) -> bool:
    """`if t: A` directly followed by `if t: B [else: C]` (t a plain local name that A does not bind): `if t: A; B [else: C]`."""
    changed = False
    for owner, f, b in list(_blocks(fn)):
        i = 0
        while i + 1 < len(b):
            x, y = b[i], b[i + 1]
            if isinstance(x, ast.If) and isinstance(y, ast.If) and not x.orelse and isinstance(x.test, ast.Name) and _u(x.test) == _u(y.test) \
                    and not any(isinstance(n, ast.Name) and n.id == x.test.id and isinstance(n.ctx, (ast.Store, ast.Del)) for z in x.body for n in ast.walk(z)) \
                    and not _ends_in_jump(x.body):
                y.body[:0] = x.body
                b.pop(i)
                changed = True
                continue
            i += 1
    return changed


def _sort_in_place(fn) -> bool:
    """`v = list(X)` directly followed by `v.sort(<keywords>)` is `v = sorted(X, <keywords>)`: both build a new list and sort it stably."""
    changed = False
    for owner, f, b in list(_blocks(fn)):
        i = 0
        while i + 1 < len(b):
            s, t = b[i], b[i + 1]
            if isinstance(s, ast.Assign) and len(s.targets) == 1 and isinstance(s.targets[0], ast.Name) and isinstance(s.value, ast.Call) \
                    and isinstance(s.value.func, ast.Name) and s.value.func.id == "list" and len(s.value.args) == 1 and not s.value.keywords \
                    and isinstance(t, ast.Expr) and isinstance(t.value, ast.Call) and isinstance(t.value.func, ast.Attribute) and t.value.func.attr == "sort" \
                    and isinstance(t.value.func.value, ast.Name) and t.value.func.value.id == s.targets[0].id and not t.value.args \
                    and not any(isinstance(n, ast.Name) and n.id == s.targets[0].id for k in t.value.keywords for n in ast.walk(k.value)):
                s.value = ast.Call(func=ast.Name(id="sorted", ctx=ast.Load()), args=[s.value.args[0]], keywords=t.value.keywords)
                b.pop(i + 1)
                ast.fix_missing_locations(fn)
                changed = True
                continue
            i += 1
    return changed


def _split_tuple_assignments(fn) -> bool:
    """`a, b = x, y` with plain names on the right that are not among the targets is `a = x; b = y`."""
    changed = False
    for owner, f, b in list(_blocks(fn)):
        i = 0
        while i < len(b):
            s = b[i]
            if isinstance(s, ast.Assign) and len(s.targets) == 1 and isinstance(s.targets[0], ast.Tuple) and isinstance(s.value, ast.Tuple) \
                    and len(s.targets[0].elts) == len(s.value.elts) and all(isinstance(t, ast.Name) for t in s.targets[0].elts) \
                    and all(isinstance(v, (ast.Name, ast.Constant)) for v in s.value.elts):
                tn = {t.id for t in s.targets[0].elts}
                if not any(isinstance(v, ast.Name) and v.id in tn for v in s.value.elts) and len(tn) == len(s.targets[0].elts):
                    b[i:i + 1] = [ast.copy_location(ast.Assign(targets=[ast.Name(id=t.id, ctx=ast.Store())], value=v), s)
                                  for t, v in zip(s.targets[0].elts, s.value.elts)]
                    ast.fix_missing_locations(fn)
                    changed = True
                    continue
            i += 1
    return changed


def _reverse_then_return(fn) -> bool:
    """`v.reverse(); return v` for a list built in the function (bound once to a list display, only appended to / read) is
    `return v[::-1]`: nobody else holds v."""
    changed = False
    for owner, f, b in list(_blocks(fn)):
        for i in range(len(b) - 1):
            s, r = b[i], b[i + 1]
            if isinstance(s, ast.Expr) and isinstance(s.value, ast.Call) and isinstance(s.value.func, ast.Attribute) and s.value.func.attr == "reverse" \
                    and not s.value.args and isinstance(s.value.func.value, ast.Name) and isinstance(r, ast.Return) and isinstance(r.value, ast.Name) \
                    and r.value.id == s.value.func.value.id:
                v = r.value.id
                stores = [n for n in ast.walk(fn) if isinstance(n, ast.Name) and n.id == v and isinstance(n.ctx, ast.Store)]
                defs = [a for a in ast.walk(fn) if isinstance(a, ast.Assign) and any(isinstance(t, ast.Name) and t.id == v for t in a.targets)]
                if len(stores) != 1 or len(defs) != 1 or not isinstance(defs[0].value, ast.List):
                    continue
                parents = {}
                for p in ast.walk(fn):
                    for ch in ast.iter_child_nodes(p):
                        parents[id(ch)] = p
                escapes = False
                for n in ast.walk(fn):
                    if isinstance(n, ast.Name) and n.id == v and isinstance(n.ctx, ast.Load) and n is not r.value and n is not s.value.func.value:
                        pn = parents.get(id(n))
                        ok_use = (isinstance(pn, ast.Attribute) and pn.attr in ("append", "insert", "extend") and isinstance(parents.get(id(pn)), ast.Call)) \
                            or isinstance(pn, (ast.Subscript, ast.comprehension, ast.For)) or (isinstance(pn, ast.Call) and isinstance(pn.func, ast.Name) and pn.func.id == "len")
                        if not ok_use:
                            escapes = True
                if escapes:
                    continue
                r.value = ast.Subscript(value=ast.Name(id=v, ctx=ast.Load()), slice=ast.Slice(lower=None, upper=None, step=ast.UnaryOp(op=ast.USub(), operand=ast.Constant(value=1))), ctx=ast.Load())
                b.pop(i)
                ast.fix_missing_locations(fn)
                changed = True
                break
    return changed


def _conditional_overwrite(fn) -> bool:
    """`v = A` directly followed by `if c: v = B` (no else; c and B do not read v; A free of effects): `v = B if c else A`."""
    changed = False
    for owner, f, b in list(_blocks(fn)):
        i = 0
        while i + 1 < len(b):
            s, t = b[i], b[i + 1]
            if isinstance(s, ast.Assign) and len(s.targets) == 1 and isinstance(s.targets[0], ast.Name) and isinstance(t, ast.If) and not t.orelse \
                    and len(t.body) == 1 and isinstance(t.body[0], ast.Assign) and len(t.body[0].targets) == 1 \
                    and isinstance(t.body[0].targets[0], ast.Name) and t.body[0].targets[0].id == s.targets[0].id:
                v = s.targets[0].id
                reads_v = any(isinstance(n, ast.Name) and n.id == v for n in ast.walk(t.body[0].value))
                if not reads_v and any(isinstance(n, ast.Name) and n.id == v for n in ast.walk(t.test)) and not canon.roots_attrs(s.value)[2]:
                    t.test = _SubstName(v, s.value).visit(t.test)  # the test reads the value just bound: the same expression
                if not reads_v and not canon.roots_attrs(s.value)[2] and (_all_pure(t.test) or not canon.roots_attrs(t.test)[2]):
                    s.value = _ifexp(t.test, t.body[0].value, s.value)
                    b.pop(i + 1)
                    changed = True
                    continue
            i += 1
    return changed


def _inline_before_return(fn) -> bool:
    """`v = E` directly followed by `return <expression reading the local v once>`: `return` with E in place (whatever other bindings v has)."""
    changed = False
    for owner, f, b in list(_blocks(fn)):
        i = 0
        while i + 1 < len(b):
            s, r = b[i], b[i + 1]
            if isinstance(s, ast.Assign) and len(s.targets) == 1 and isinstance(s.targets[0], ast.Name) and isinstance(r, ast.Return) and r.value is not None:
                v = s.targets[0].id
                uses = [n for n in ast.walk(r.value) if isinstance(n, ast.Name) and n.id == v]
                first = next((n for n in canon.walk_order(r.value) if isinstance(n, (ast.Name, ast.Call, ast.Attribute, ast.Subscript))), None)
                if len(uses) == 1 and (uses[0] is r.value or uses[0] is first) and not any(isinstance(n, (ast.Lambda, ast.GeneratorExp, ast.ListComp)) for n in ast.walk(r.value)):
                    if uses[0] is r.value:
                        r.value = s.value
                    else:
                        canon._replace(r, uses[0], s.value)
                    b.pop(i)
                    changed = True
                    continue
            i += 1
    return changed


def _clone_stmt(x: ast.stmt) -> ast.stmt:
    return ast.parse(ast.unparse(x)).body[0]


# ---------------------------------------------------------------------------------------------------------- N5
def _collector(loop: ast.For):
    """for t in S: [if c:] (nested for ...) L.append(e)  ->  (L expr, elt, generators) or None; dict stores likewise."""
    gens: List[ast.comprehension] = []
    cur: ast.stmt = loop
    while True:
        if isinstance(cur, ast.For) and not cur.orelse and len(cur.body) == 1:
            gens.append(ast.comprehension(target=cur.target, iter=cur.iter, ifs=[], is_async=0))
            cur = cur.body[0]
        elif isinstance(cur, ast.If) and not cur.orelse and len(cur.body) == 1 and gens:
            w = cur.test
            gens[-1].ifs += w.values if isinstance(w, ast.BoolOp) and isinstance(w.op, ast.And) else [w]
            cur = cur.body[0]
        else:
            break
    if not gens:
        return None
    bound = {n.id for g in gens for n in ast.walk(g.target) if isinstance(n, ast.Name)}
    if isinstance(cur, ast.Expr) and isinstance(cur.value, ast.Call) and isinstance(cur.value.func, ast.Attribute) \
            and cur.value.func.attr == "append" and len(cur.value.args) == 1 and not cur.value.keywords:
        L = cur.value.func.value
        if {n.id for n in ast.walk(L) if isinstance(n, ast.Name)} & bound:
            return None
        if _mentions(gens, cur.value.args[0], L):
            return None
        return ("list", L, cur.value.args[0], gens)
    if isinstance(cur, ast.Assign) and len(cur.targets) == 1 and isinstance(cur.targets[0], ast.Subscript):
        D = cur.targets[0].value
        if {n.id for n in ast.walk(D) if isinstance(n, ast.Name)} & bound:
            return None
        if _mentions(gens, cur.value, D) or _mentions([], cur.targets[0].slice, D):
            return None
        return ("dict", D, (cur.targets[0].slice, cur.value), gens)
    return None


def _mentions(gens, e, L) -> bool:
    t = _u(L)
    for x in [e] + [g.iter for g in gens] + [c for g in gens for c in g.ifs]:
        for n in ast.walk(x):
            if isinstance(n, (ast.Name, ast.Attribute)) and _u(n) == t:
                return True
    return False


def _quantifier(loop: ast.For, nxt: Optional[ast.stmt]):
    """for t in S: if c: return K   ;  return not K   ->  return any/all(...)."""
    if loop.orelse or len(loop.body) != 1 or not isinstance(nxt, ast.Return) or not isinstance(nxt.value, ast.Constant) or not isinstance(nxt.value.value, bool):
        return None
    s = loop.body[0]
    if not (isinstance(s, ast.If) and not s.orelse and len(s.body) == 1 and isinstance(s.body[0], ast.Return)
            and isinstance(s.body[0].value, ast.Constant) and isinstance(s.body[0].value.value, bool)):
        return None
    k = s.body[0].value.value
    if nxt.value.value is k:
        return None
    gen = ast.comprehension(target=loop.target, iter=loop.iter, ifs=[], is_async=0)
    if k:
        return ast.Return(value=ast.Call(func=ast.Name(id="any", ctx=ast.Load()), args=[ast.GeneratorExp(elt=s.test, generators=[gen])], keywords=[]))
    return ast.Return(value=ast.Call(func=ast.Name(id="all", ctx=ast.Load()), args=[ast.GeneratorExp(elt=nnf(s.test, True, True), generators=[gen])], keywords=[]))


def _destructure(loop: ast.For, after: Sequence[ast.stmt]) -> bool:
    """for k, v in X: (a, b) = k ...   ->   for (a, b), v in X: ...   (k not used otherwise)."""
    if not loop.body or not isinstance(loop.body[0], ast.Assign) or len(loop.body[0].targets) != 1:
        return False
    a = loop.body[0]
    if not (isinstance(a.targets[0], (ast.Tuple, ast.List)) and isinstance(a.value, ast.Name) and all(isinstance(e, ast.Name) for e in a.targets[0].elts)):
        return False
    k = a.value.id
    slots = [t for t in ast.walk(loop.target) if isinstance(t, ast.Name) and t.id == k]
    if len(slots) != 1:
        return False
    uses = [n for x in loop.body[1:] + list(loop.orelse) + list(after) for n in ast.walk(x) if isinstance(n, ast.Name) and n.id == k]
    names = [e.id for e in a.targets[0].elts]
    if uses:
        # the key is also read (e.g. as a dict key): an equal tuple of the unpacked names, provided none of them is re-bound in the loop
        # and the key is not read after the loop
        rebound = any(isinstance(n, ast.Name) and n.id in names + [k] and isinstance(n.ctx, (ast.Store, ast.Del)) for x in loop.body[1:] for n in ast.walk(x))
        after_use = any(isinstance(n, ast.Name) and n.id == k for x in list(loop.orelse) + list(after) for n in ast.walk(x))
        if rebound or after_use or not all(isinstance(n.ctx, ast.Load) for n in uses):
            return False
        for n in uses:
            canon._replace(loop, n, ast.Tuple(elts=[ast.Name(id=e, ctx=ast.Load()) for e in names], ctx=ast.Load()))
    new_t = ast.Tuple(elts=[ast.Name(id=e.id, ctx=ast.Store()) for e in a.targets[0].elts], ctx=ast.Store())
    if loop.target is slots[0]:
        loop.target = new_t
    else:
        canon._replace(loop.target, slots[0], new_t)
    loop.body = loop.body[1:] or [ast.Pass()]
    return True


def _split_loop_targets(fn) -> bool:
    """A name that is both a plain local and, later, the target of a for loop: the loop gets its own name when no read of the
    name outside the loop can see the loop's binding (none after the loop; none in a loop that encloses it)."""
    changed = False
    pos, last = canon._positions(fn)
    stores: Dict[str, List[ast.AST]] = {}
    for n in ast.walk(fn):
        if isinstance(n, ast.Name) and isinstance(n.ctx, ast.Store):
            stores.setdefault(n.id, []).append(n)
    outer_loops: Dict[int, List[ast.AST]] = {}

    def rec(n, loops):
        outer_loops[id(n)] = loops
        for ch in ast.iter_child_nodes(n):
            rec(ch, loops + [n] if isinstance(n, (ast.For, ast.While)) else loops)
    rec(fn, [])
    k = 0
    for loop in [n for n in ast.walk(fn) if isinstance(n, ast.For)]:
        tn = [t for t in ast.walk(loop.target) if isinstance(t, ast.Name)]
        for t in tn:
            nm = t.id
            if len(stores.get(nm, [])) < 2:
                continue
            inside = {id(x) for x in ast.walk(loop)}
            if any(id(st) in inside and st is not t for st in stores[nm]):
                continue
            if not canon.loop_binding_is_private(fn, loop, nm):
                continue
            new = f"{nm}__l{k}"
            k += 1
            for x in ast.walk(loop):
                if isinstance(x, ast.Name) and x.id == nm and x is not None and (x is t or id(x) in inside) and not any(x is y for y in ast.walk(loop.iter)):
                    x.id = new
            changed = True
            stores[nm] = [st for st in stores[nm] if st is not t]
    return changed


class _SubstName(ast.NodeTransformer):
    def __init__(self, name, expr):
        self.name, self.expr = name, expr

    def visit_Name(self, node):
        if node.id == self.name and isinstance(node.ctx, ast.Load):
            return ast.copy_location(ast.parse(ast.unparse(self.expr), mode="eval").body, node)
        return node


def _unroll_literal_loops(fn) -> bool:
    """`for x in (a, b): BODY` over a literal tuple/list of at most three names or attribute chains is BODY[a]; BODY[b] when the body has
    no break/continue of that loop, does not bind x, and x is not read afterwards."""
    changed = False
    for owner, f, b in list(_blocks(fn)):
        i = 0
        while i < len(b):
            s = b[i]
            if isinstance(s, ast.For) and not s.orelse and isinstance(s.target, ast.Name) and isinstance(s.iter, (ast.Tuple, ast.List)) \
                    and 2 <= len(s.iter.elts) <= 3 and all(canon._simple(e) for e in s.iter.elts):
                x = s.target.id
                jumps = [n for st in s.body for n in ast.walk(st) if isinstance(n, (ast.Break, ast.Continue))]
                inner_loops = [n for st in s.body for n in ast.walk(st) if isinstance(n, (ast.For, ast.While))]
                own_jump = any(not any(any(j is y for y in ast.walk(l)) for l in inner_loops) for j in jumps)
                rebinds = any(isinstance(n, ast.Name) and n.id == x and isinstance(n.ctx, (ast.Store, ast.Del)) for st in s.body for n in ast.walk(st))
                later = any(isinstance(n, ast.Name) and n.id == x for st in b[i + 1:] for n in ast.walk(st))
                other = [n for n in ast.walk(fn) if isinstance(n, ast.Name) and n.id == x and not any(n is y for y in ast.walk(s))]
                if not own_jump and not rebinds and not later and not other:
                    new_stmts = []
                    for e in s.iter.elts:
                        for st in s.body:
                            new_stmts.append(_SubstName(x, e).visit(_clone_stmt(st)))
                    b[i:i + 1] = new_stmts
                    ast.fix_missing_locations(fn)
                    changed = True
                    continue
            i += 1
    return changed


def _loops(fn) -> bool:
    changed = _unroll_literal_loops(fn)
    for owner, f, b in list(_blocks(fn)):
        i = 0
        while i < len(b):
            s = b[i]
            if isinstance(s, ast.For) and _destructure(s, b[i + 1:]):
                changed = True
            if isinstance(s, ast.For):
                # for k, v in d.items() with k unused -> for v in d.values()
                if isinstance(s.target, ast.Tuple) and len(s.target.elts) == 2 and isinstance(s.target.elts[0], ast.Name) \
                        and isinstance(s.iter, ast.Call) and isinstance(s.iter.func, ast.Attribute) and s.iter.func.attr == "items" and not s.iter.args:
                    k = s.target.elts[0].id
                    if not any(isinstance(n, ast.Name) and n.id == k for x in s.body + s.orelse for n in ast.walk(x)) \
                            and not any(isinstance(n, ast.Name) and n.id == k for x in b[i + 1:] for n in ast.walk(x)):
                        s.target = s.target.elts[1]
                        s.iter.func.attr = "values"
                        changed = True
                q = _quantifier(s, b[i + 1] if i + 1 < len(b) else None)
                if q is not None:
                    b[i:i + 2] = [q]
                    changed = True
                    continue
                c = _collector(s)
                if c is not None:
                    kind, L, elt, gens = c
                    if kind == "list":
                        call = ast.Call(func=ast.Attribute(value=L, attr="extend", ctx=ast.Load()), args=[ast.GeneratorExp(elt=elt, generators=gens)], keywords=[])
                    else:
                        call = ast.Call(func=ast.Attribute(value=L, attr="update", ctx=ast.Load()),
                                        args=[ast.DictComp(key=elt[0], value=elt[1], generators=gens)], keywords=[])
                    b[i] = ast.Expr(value=call)
                    changed = True
                    continue
            # L = [] ; L.extend(gen)  ->  L = [gen]        D = {} ; D.update({..})  ->  D = {..}
            if isinstance(s, ast.Assign) and len(s.targets) == 1 and isinstance(s.targets[0], ast.Name) and i + 1 < len(b):
                n = b[i + 1]
                if isinstance(n, ast.Expr) and isinstance(n.value, ast.Call) and isinstance(n.value.func, ast.Attribute) \
                        and isinstance(n.value.func.value, ast.Name) and n.value.func.value.id == s.targets[0].id and len(n.value.args) == 1:
                    a = n.value.args[0]
                    nm = s.targets[0].id
                    if not any(isinstance(x, ast.Name) and x.id == nm for x in ast.walk(a)):
                        if n.value.func.attr == "extend" and isinstance(s.value, ast.List) and not s.value.elts and isinstance(a, (ast.GeneratorExp, ast.ListComp)):
                            s.value = ast.ListComp(elt=a.elt, generators=a.generators)
                            del b[i + 1]
                            changed = True
                            continue
                        if n.value.func.attr == "update" and isinstance(s.value, ast.Dict) and not s.value.keys and isinstance(a, ast.DictComp):
                            s.value = a
                            del b[i + 1]
                            changed = True
                            continue
            i += 1
    return changed


def _is_fresh_empty(v: ast.AST) -> bool:
    return (isinstance(v, (ast.List, ast.Set)) and not v.elts) or (isinstance(v, ast.Dict) and not v.keys) \
        or (isinstance(v, ast.Call) and isinstance(v.func, ast.Name) and v.func.id in ("list", "dict", "set") and not v.args and not v.keywords)


def _sink_constants(fn) -> bool:
    """`v = <constant>` / `v = []` (v a local) moves down past statements that do not mention v, up to the next jump or loop, and into
    both arms of an if/else whose test does not mention v: nothing can observe the difference (functions with try blocks are left alone:
    a handler could)."""
    if any(isinstance(n, ast.Try) for n in ast.walk(fn)):
        return False
    changed = False

    def mentions(node, v):
        return any(isinstance(n, ast.Name) and n.id == v for n in ast.walk(node)) \
            or any(isinstance(n, ast.Call) and isinstance(n.func, ast.Name) and n.func.id in ("locals", "vars", "eval", "exec") for n in ast.walk(node))
    for _ in range(4):
        moved = False
        for owner, f, b in list(_blocks(fn)):
            i = len(b) - 2
            while i >= 0:
                s = b[i]
                if isinstance(s, ast.Assign) and len(s.targets) == 1 and isinstance(s.targets[0], ast.Name) \
                        and (isinstance(s.value, ast.Constant) or _is_fresh_empty(s.value)):
                    v = s.targets[0].id
                    j = i
                    while j + 1 < len(b):
                        nxt = b[j + 1]
                        if isinstance(nxt, JUMPS) or isinstance(nxt, (ast.For, ast.While, ast.If, ast.With, ast.FunctionDef)) or mentions(nxt, v):
                            break
                        j += 1
                    if j + 1 < len(b) and isinstance(b[j + 1], (ast.Return, ast.Raise)) and not mentions(b[j + 1], v):
                        b.pop(i)  # dead: the function is left without reading v
                        changed = moved = True
                        i -= 1
                        continue
                    if j != i:
                        b.insert(j, b.pop(i))
                        changed = moved = True
                    # into the arms of an if/else
                    if j + 1 < len(b) and isinstance(b[j + 1], ast.If) and b[j + 1].orelse and not mentions(b[j + 1].test, v) \
                            and (mentions(b[j + 1], v) or any(mentions(x, v) for x in b[j + 2:])) \
                            and not (len(b[j + 1].orelse) == 1 and isinstance(b[j + 1].orelse[0], ast.If)):
                        iff = b[j + 1]
                        st = b.pop(j)
                        iff.body.insert(0, st)
                        iff.orelse.insert(0, _clone_stmt(st))
                        changed = moved = True
                i -= 1
        if not moved:
            break
    return changed


# ---------------------------------------------------------------------------------------------------------- N7, N2
class _Aug(ast.NodeTransformer):
    OPS = (ast.Add, ast.Sub, ast.Mult)

    def visit_Assign(self, node):
        self.generic_visit(node)
        if len(node.targets) == 1 and isinstance(node.value, ast.BinOp) and isinstance(node.value.op, self.OPS) \
                and isinstance(node.targets[0], (ast.Name, ast.Attribute, ast.Subscript)) and _u(node.value.left) == _u(node.targets[0]):
            t = node.targets[0]
            return ast.copy_location(ast.AugAssign(target=t, op=node.value.op, value=node.value.right), node)
        return node


class _Kw(ast.NodeTransformer):
    def __init__(self, sigs: Dict[str, List[str]]):
        self.sigs = sigs

    def visit_Call(self, node):
        self.generic_visit(node)
        name = node.func.attr if isinstance(node.func, ast.Attribute) else (node.func.id if isinstance(node.func, ast.Name) else None)
        params = self.sigs.get(name) if name else None
        if params and node.args and not any(isinstance(a, ast.Starred) for a in node.args) and len(node.args) <= len(params) \
                and not any(k.arg is None for k in node.keywords):
            new = [ast.keyword(arg=p, value=a) for p, a in zip(params, node.args)]
            if not ({k.arg for k in new} & {k.arg for k in node.keywords}):
                node.keywords = new + node.keywords
                node.args = []
        if params and not any(k.arg is None for k in node.keywords):
            order = {p: i for i, p in enumerate(params)}
            node.keywords.sort(key=lambda k: order.get(k.arg, 99))
        return node


# ---------------------------------------------------------------------------------------------------------- N8
def _rename_in(node: ast.AST, mapping: Dict[str, str]) -> None:
    for n in ast.walk(node):
        if isinstance(n, ast.Name) and n.id in mapping:
            n.id = mapping[n.id]
        elif isinstance(n, ast.arg) and n.arg in mapping:
            n.arg = mapping[n.arg]


def _scope_binders(fn, counter=None) -> None:
    """Comprehension variables and lambda parameters live in their own scope: give every binder its own name so that the reuse
    of one name by two comprehensions (or the shadowing of a local) does not tie them together."""
    counter = counter if counter is not None else [0]

    def rec(n):
        for ch in ast.iter_child_nodes(n):
            rec(ch)
        if isinstance(n, (ast.ListComp, ast.SetComp, ast.DictComp, ast.GeneratorExp)):
            names = []
            for g in n.generators:
                for t in ast.walk(g.target):
                    if isinstance(t, ast.Name) and t.id not in names:
                        names.append(t.id)
            mapping = {}
            for nm in names:
                if nm.startswith("_c") and nm[2:].isdigit():
                    continue
                mapping[nm] = f"_c{counter[0]}"
                counter[0] += 1
            parts = [getattr(n, f) for f in ("elt", "key", "value") if hasattr(n, f)]
            for k, g in enumerate(n.generators):
                parts.append(g.target)
                parts += g.ifs
                if k > 0:
                    parts.append(g.iter)  # the first iterable is evaluated in the enclosing scope
            for part in parts:
                _rename_in(part, mapping)
        elif isinstance(n, ast.Lambda):
            mapping = {}
            for a in n.args.args:
                if a.arg.startswith("_c") and a.arg[2:].isdigit():
                    continue
                mapping[a.arg] = f"_c{counter[0]}"
                counter[0] += 1
            _rename_in(n.args, mapping)
            _rename_in(n.body, mapping)
    rec(fn)


def _number_names(fn) -> None:
    params = {a.arg for a in fn.args.args + fn.args.kwonlyargs + fn.args.posonlyargs}
    if fn.args.vararg:
        params.add(fn.args.vararg.arg)
    if fn.args.kwarg:
        params.add(fn.args.kwarg.arg)
    bound: Set[str] = set()
    for n in ast.walk(fn):
        if isinstance(n, ast.Name) and isinstance(n.ctx, (ast.Store, ast.Del)):
            bound.add(n.id)
        elif isinstance(n, ast.Lambda):
            bound |= {a.arg for a in n.args.args}
        elif isinstance(n, ast.ExceptHandler) and n.name:
            bound.add(n.name)
        elif isinstance(n, (ast.FunctionDef,)) and n is not fn:
            bound.add(n.name)
            bound |= {a.arg for a in n.args.args}
    bound -= params
    order: Dict[str, str] = {}
    for n in canon.walk_order(fn):
        nm = None
        if isinstance(n, ast.Name):
            nm = n.id
        elif isinstance(n, ast.arg):
            nm = n.arg
        elif isinstance(n, ast.ExceptHandler):
            nm = n.name
        elif isinstance(n, ast.FunctionDef) and n is not fn:
            nm = n.name
        if nm in bound and nm not in order:
            order[nm] = f"_v{len(order)}"
    for n in ast.walk(fn):
        if isinstance(n, ast.Name) and n.id in order:
            n.id = order[n.id]
        elif isinstance(n, ast.arg) and n.arg in order:
            n.arg = order[n.arg]
        elif isinstance(n, ast.ExceptHandler) and n.name in order:
            n.name = order[n.name]
        elif isinstance(n, ast.FunctionDef) and n is not fn and n.name in order:
            n.name = order[n.name]


def _fix_empty(fn) -> None:
    for owner, f, b in list(_blocks(fn)):
        if not b and f == "body":
            b.append(ast.Pass())


def nf_text(fn: ast.AST, sigs: Optional[Dict[str, List[str]]] = None, inline: bool = True) -> str:
    f = _clone_fn(fn)
    f = _Strip().visit(f)
    f.decorator_list = []
    ast.fix_missing_locations(f)
    if sigs:
        f = _Kw(sigs).visit(f)
    binder_counter = [0]
    _scope_binders(f, binder_counter)
    _BIND.clear()
    for a in f.args.posonlyargs + f.args.args + f.args.kwonlyargs:
        _BIND.setdefault(a.arg, len(_BIND))
    for n in canon.walk_order(f):
        if isinstance(n, ast.Name) and isinstance(n.ctx, ast.Store):
            _BIND.setdefault(n.id, len(_BIND))
        elif isinstance(n, ast.arg):
            _BIND.setdefault(n.arg, len(_BIND))
    for _ in range(12):
        changed = False
        f = _Tests().visit(f)
        ast.fix_missing_locations(f)
        f = ast.parse(ast.unparse(f)).body[0] if False else f
        changed |= _drop_noise(f)
        _fix_empty(f)
        changed |= _tail_position_continue(f)
        _fix_empty(f)
        changed |= _conditional_overwrite(f)  # before a consumer behind the `if` is distributed into its arms
        changed |= _ifs(f)
        changed |= _loops(f)
        _scope_binders(f, binder_counter)  # comprehensions made from loops get their own binders too
        changed |= _inline_before_return(f)
        changed |= _inline_adjacent_webs(f)
        changed |= _conditional_overwrite(f)
        changed |= _hoist_hit_body(f)
        changed |= _merge_same_test_ifs(f)
        changed |= _split_tuple_assignments(f)
        changed |= _sort_in_place(f)
        changed |= _reverse_then_return(f)
        ast.fix_missing_locations(f)
        changed |= bool(canon.drop_self_assignments(f))
        changed |= bool(canon.drop_redundant_rebindings(f))
        changed |= _split_loop_targets(f)
        changed |= _sink_constants(f)
        if inline:
            # re-parse so that node identities are fresh and consistent for the position bookkeeping of the inliner
            f = ast.parse(ast.unparse(f)).body[0]
            try:
                # after the loops of a local function have become any()/comprehensions, so that both spellings are substituted alike
                if canon.inline_local_functions(f):
                    changed = True
                    f = ast.parse(ast.unparse(f)).body[0]
            except Exception:
                pass
            changed |= bool(canon.inline_new_locals(f, set()))
        f = _Aug().visit(f)
        _fix_empty(f)
        ast.fix_missing_locations(f)
        if not changed:
            break
    f = _Tests().visit(f)
    _number_names(f)
    ast.fix_missing_locations(f)
    return ast.unparse(f)
