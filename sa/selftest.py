"""Checker self-validation (thorough tier): mutants must be reported, twins must stay silent.

A mutant / twin is a textual edit of one repository file, applied in memory to a
variant of the tree (nothing under /repo is touched) and analysed with exactly
the same rules.  A mutant that applies and is not reported, or a twin that
applies and is reported, means the *checker* is broken: exit 2.
Mutants whose anchor text no longer occurs in the file are recorded as
"not applicable on this tree" and do not fail the run.
"""
from __future__ import annotations

import importlib
import io
import json
import os
import contextlib
from concurrent.futures import ProcessPoolExecutor
from typing import Dict, List, Tuple

from .core import AnalysisError, Repo
from .report import Context, VERIF_DIR, load_known


def _apply(src: str, edits: List[Tuple[str, str]]) -> str | None:
    out = src
    for old, new in edits:
        if out.count(old) != 1:
            return None
        out = out.replace(old, new)
    return out


def _run_variant(args):
    prop, root, rel_edits = args
    base = Repo(root)
    overrides: Dict[str, str] = {}
    if isinstance(rel_edits, str) and rel_edits.startswith("__TWIN__:"):
        from . import twins as _twins
        overrides = _twins.program(base.modules, rel_edits.split(":", 1)[1])
        rel_edits = {}
    for rel, edits in rel_edits.items():
        m = base.modules.get(rel)
        if m is None:
            return ("n/a", [], "file missing")
        new = _apply(m.source, edits)
        if new is None:
            return ("n/a", [], "anchor text not found exactly once")
        overrides[rel] = new
    try:
        repo = Repo(root, overrides)
        for rel in overrides:
            if rel not in repo.modules:
                return ("n/a", [], "variant does not parse")
        mod = importlib.import_module(f"sa.rules.{prop.lower()}")
        ctx = Context(prop, "quick", 0, repo)
        with contextlib.redirect_stdout(io.StringIO()):
            mod.run(ctx)
        known = {k["key"] for k in load_known() if k.get("property") == prop}
        new_v = [v for v in ctx.violations if v["key"] not in known]
        if not new_v and ctx.deferred_errors:
            return ("analysis-error", [], ctx.deferred_errors[0])
        return ("violations" if new_v else "clean", [v["key"] for v in new_v], "")
    except AnalysisError as exc:
        return ("analysis-error", [], str(exc))


def run(prop: str, ctx: Context, seed: int) -> int:
    try:
        spec = importlib.import_module(f"sa.mutants.{prop.lower()}")
    except ModuleNotFoundError:
        spec = None
    mutants = getattr(spec, "MUTANTS", [])
    twins = list(getattr(spec, "TWINS", [])) + [
        {"name": "whole program re-emitted by ast.unparse (layout, comments and line numbers change)", "edits": "__TWIN__:reformat"},
        {"name": "every local variable of every function renamed (alpha-renaming)", "edits": "__TWIN__:rename-locals"},
        {"name": "every if/else swapped under the negated test", "edits": "__TWIN__:swap-branches"},
        {"name": "every comparison mirrored (a < b as b > a)", "edits": "__TWIN__:flip-compares"},
        {"name": "guard clauses, De Morgan on every and/or test, augmented assignments expanded, in-tuple tests spelt with ==, positional arguments by keyword",
         "edits": "__TWIN__:restructure"}]
    jobs = [(prop, ctx.repo.root, m["edits"]) for m in mutants] + [(prop, ctx.repo.root, t["edits"]) for t in twins]
    with ProcessPoolExecutor(max_workers=min(16, max(1, len(jobs)))) as ex:
        results = list(ex.map(_run_variant, jobs))
    rows = []
    bad = []
    killed = applied = silent = twins_applied = 0
    for m, (status, keys, why) in zip(mutants, results[: len(mutants)]):
        row = {"mutant": m["name"], "status": status, "keys": keys[:4], "why": why}
        if status == "n/a":
            row["verdict"] = "not applicable on this tree"
        else:
            applied += 1
            expect = m.get("expect", "")
            hit = status == "violations" and any(expect in k for k in keys)
            # an anchor-lost error also refuses the variant (exit 2), which is acceptable for
            # mutants that delete the construct the rule is anchored on
            if hit or (status == "analysis-error" and m.get("allow_error")):
                killed += 1
                row["verdict"] = "killed"
            else:
                row["verdict"] = "SURVIVED"
                bad.append(row)
        rows.append(row)
    for t, (status, keys, why) in zip(twins, results[len(mutants):]):
        row = {"twin": t["name"], "status": status, "keys": keys[:4], "why": why}
        if status == "n/a":
            row["verdict"] = "not applicable on this tree"
        else:
            twins_applied += 1
            if status == "clean":
                silent += 1
                row["verdict"] = "silent"
            else:
                row["verdict"] = "FALSE-ALARM"
                bad.append(row)
        rows.append(row)
    # merge into the evidence file written by Context.finish
    ev_path = os.path.join(VERIF_DIR, "evidence", f"{prop}.json")
    if os.path.exists(ev_path) and os.environ.get("VERIF_NO_EVIDENCE") != "1":
        ev = json.load(open(ev_path))
        ev["coverage"]["self_validation"] = {
            "mutants_applied": applied, "mutants_killed": killed,
            "twins_applied": twins_applied, "twins_silent": silent, "matrix": rows,
        }
        json.dump(ev, open(ev_path, "w"), indent=1, default=str)
    print(f"[{prop}] self-validation: mutants killed {killed}/{applied}, twins silent {silent}/{twins_applied}")
    # independently seeded changes recorded as caught by this property (applied in memory)
    from . import seeded
    src_rc, seed_rows = seeded.run(prop, ctx)
    if seed_rows:
        caught = sum(1 for r in seed_rows if r["status"] == "violations")
        print(f"[{prop}] seeded changes: caught {caught}/{len(seed_rows)} ({', '.join(r['seed'] for r in seed_rows)})")
        if os.path.exists(ev_path) and os.environ.get("VERIF_NO_EVIDENCE") != "1":
            ev = json.load(open(ev_path))
            ev["coverage"].setdefault("self_validation", {})["seeded_changes"] = seed_rows
            json.dump(ev, open(ev_path, "w"), indent=1, default=str)
    if src_rc:
        print(f"ANALYSIS-ERROR property={prop} a seeded change recorded as caught is no longer reported")
        return 2
    ref_rc, ref_rows = seeded.run_refactors(prop, ctx)
    if ref_rows:
        silent = sum(1 for r in ref_rows if r["status"] == "clean")
        print(f"[{prop}] independent refactorings: silent {silent}/{len(ref_rows)}")
        if os.path.exists(ev_path) and os.environ.get("VERIF_NO_EVIDENCE") != "1":
            ev = json.load(open(ev_path))
            ev["coverage"].setdefault("self_validation", {})["independent_refactorings"] = ref_rows
            json.dump(ev, open(ev_path, "w"), indent=1, default=str)
    if ref_rc:
        print(f"ANALYSIS-ERROR property={prop} a behaviour-preserving refactoring is reported or cannot be decided")
        return 2
    if bad:
        for b in bad:
            print(f"  CHECKER-DEFECT {b}")
        print(f"ANALYSIS-ERROR property={prop} checker self-validation failed")
        return 2
    return 0
