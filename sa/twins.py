"""Whole-program behaviour-preserving transforms ("generic twins"): every one is applied to every program module in memory and every
property's rules must stay silent on the result (thorough tier, tools/generic_twins.py).

  reformat       ast.unparse of every module (layout, comments and line numbers change)
  rename-locals  every local variable of every function renamed consistently
  swap-branches  if c: A else: B  ->  if not c: B else: A
  flip-compares  a < b -> b > a, a == b -> b == a
  restructure    guard clauses for if/else whose first arm leaves; De Morgan on every and/or test; `x op= e` spelt `x = x op e`;
                 `x in (a, b)` spelt with ==/or; positional arguments of repository functions passed by keyword
"""
from __future__ import annotations

import ast
import json
import os
from typing import Dict

MODES = ("reformat", "rename-locals", "swap-branches", "flip-compares", "restructure")
FLIP = {ast.Lt: ast.Gt, ast.Gt: ast.Lt, ast.LtE: ast.GtE, ast.GtE: ast.LtE, ast.Eq: ast.Eq, ast.NotEq: ast.NotEq}
JUMPS = (ast.Return, ast.Continue, ast.Break, ast.Raise)


def _rename_locals(fn) -> None:
    params = {a.arg for a in fn.args.args + fn.args.kwonlyargs + fn.args.posonlyargs}
    if fn.args.vararg:
        params.add(fn.args.vararg.arg)
    if fn.args.kwarg:
        params.add(fn.args.kwarg.arg)
    stored, declared = set(), set()
    for n in ast.walk(fn):
        if isinstance(n, ast.Name) and isinstance(n.ctx, (ast.Store, ast.Del)):
            stored.add(n.id)
        if isinstance(n, (ast.Global, ast.Nonlocal)):
            declared |= set(n.names)
    loc = stored - params - declared - {"_"}
    own = {id(a) for a in fn.args.args + fn.args.kwonlyargs + fn.args.posonlyargs}
    for n in ast.walk(fn):
        if isinstance(n, ast.Name) and n.id in loc:
            n.id = n.id + "_r"
        elif isinstance(n, ast.arg) and id(n) not in own and n.arg in loc:
            n.arg = n.arg + "_r"  # a lambda / nested-function parameter that shadows a local: renamed along with it


def _outer_functions(node):
    for ch in ast.iter_child_nodes(node):
        if isinstance(ch, (ast.FunctionDef, ast.AsyncFunctionDef)):
            yield ch
        else:
            yield from _outer_functions(ch)


class SwapBranches(ast.NodeTransformer):
    def visit_If(self, node):
        self.generic_visit(node)
        if node.orelse and not (len(node.orelse) == 1 and isinstance(node.orelse[0], ast.If)):
            node.test = ast.UnaryOp(op=ast.Not(), operand=node.test)
            node.body, node.orelse = node.orelse, node.body
        return node


class FlipCompares(ast.NodeTransformer):
    def visit_Compare(self, node):
        self.generic_visit(node)
        if len(node.ops) == 1 and type(node.ops[0]) in FLIP:
            node.left, node.comparators = node.comparators[0], [node.left]
            node.ops = [FLIP[type(node.ops[0])]()]
        return node


class Restructure(ast.NodeTransformer):
    def __init__(self, sigs: Dict[str, list]):
        self.sigs = sigs

    def _block(self, stmts):
        out = []
        for s in stmts:
            out.append(s)
            if isinstance(s, ast.If) and s.orelse and not (len(s.orelse) == 1 and isinstance(s.orelse[0], ast.If)) \
                    and s.body and isinstance(s.body[-1], JUMPS):
                out.extend(s.orelse)
                s.orelse = []
        return out

    def generic_visit(self, node):
        super().generic_visit(node)
        for f in ("body", "orelse", "finalbody"):
            b = getattr(node, f, None)
            if isinstance(b, list) and b and isinstance(b[0], ast.stmt):
                setattr(node, f, self._block(b))
        return node

    def _demorgan(self, t):
        if isinstance(t, ast.BoolOp) and len(t.values) <= 3:
            dual = ast.Or() if isinstance(t.op, ast.And) else ast.And()
            return ast.UnaryOp(op=ast.Not(), operand=ast.BoolOp(op=dual, values=[ast.UnaryOp(op=ast.Not(), operand=v) for v in t.values]))
        return t

    def visit_If(self, node):
        self.generic_visit(node)
        node.test = self._demorgan(node.test)
        return node

    def visit_While(self, node):
        self.generic_visit(node)
        node.test = self._demorgan(node.test)
        return node

    def visit_AugAssign(self, node):
        self.generic_visit(node)
        if isinstance(node.op, (ast.Add, ast.Sub)) and isinstance(node.target, (ast.Name, ast.Attribute)):
            load = ast.parse(ast.unparse(node.target), mode="eval").body
            return ast.copy_location(ast.Assign(targets=[node.target], value=ast.BinOp(left=load, op=node.op, right=node.value)), node)
        return node

    def visit_Compare(self, node):
        self.generic_visit(node)
        if len(node.ops) == 1 and isinstance(node.ops[0], (ast.In, ast.NotIn)) and isinstance(node.comparators[0], (ast.Tuple, ast.List)) \
                and 2 <= len(node.comparators[0].elts) <= 3 and isinstance(node.left, (ast.Name, ast.Attribute)):
            cop, bop = (ast.Eq, ast.Or) if isinstance(node.ops[0], ast.In) else (ast.NotEq, ast.And)
            return ast.BoolOp(op=bop(), values=[ast.Compare(left=ast.parse(ast.unparse(node.left), mode="eval").body, ops=[cop()], comparators=[e])
                                                for e in node.comparators[0].elts])
        return node

    def visit_Call(self, node):
        self.generic_visit(node)
        name = node.func.attr if isinstance(node.func, ast.Attribute) else (node.func.id if isinstance(node.func, ast.Name) else None)
        params = self.sigs.get(name) if name else None
        if params and node.args and not any(isinstance(a, ast.Starred) for a in node.args) and len(node.args) <= len(params) \
                and not any(k.arg is None for k in node.keywords):
            new = [ast.keyword(arg=p, value=a) for p, a in zip(params, node.args)]
            if not ({k.arg for k in new} & {k.arg for k in node.keywords}):
                node.keywords = new + node.keywords
                node.args = []
        return node


def transform(source: str, mode: str) -> str:
    tree = ast.parse(source)
    if mode == "rename-locals":
        for fn in _outer_functions(tree):
            _rename_locals(fn)
    elif mode == "swap-branches":
        tree = SwapBranches().visit(tree)
    elif mode == "flip-compares":
        tree = FlipCompares().visit(tree)
    elif mode == "restructure":
        from .alpha import REF_PATH
        try:
            sigs = json.load(open(REF_PATH)).get("__sigs__", {})
        except (OSError, ValueError):
            sigs = {}
        tree = Restructure(sigs).visit(tree)
    elif mode != "reformat":
        raise ValueError(mode)
    ast.fix_missing_locations(tree)
    return ast.unparse(tree) + "\n"


def program(modules, mode: str) -> Dict[str, str]:
    out: Dict[str, str] = {}
    for rel, m in modules.items():
        if rel.startswith(("tests/", "scripts/", "experiments/")):
            continue
        try:
            out[rel] = transform(m.source, mode)
        except Exception:
            pass
    return out
