"""Triage helper (NOT a check): builds a tiny real Simulator run to confirm/refute a static finding.

Usage: cd /repo && /venv/bin/python /verif/probes/<probe>.py
"""
import logging
import os
import sys
import tempfile
from types import SimpleNamespace

sys.path.insert(0, os.environ.get("VERIF_REPO", "/repo"))

from data import BaseWorkloadLoader  # noqa: E402
from schedulers import EDFScheduler  # noqa: E402
from simulator import Simulator  # noqa: E402
from utils import EventTime  # noqa: E402
from workers import Worker, WorkerPool, WorkerPools  # noqa: E402
from workload import (  # noqa: E402
    ExecutionStrategies, ExecutionStrategy, Job, JobGraph, Resource, Resources, Task, TaskGraph, Workload, WorkProfile,
)


def us(t):
    return EventTime(int(t), EventTime.Unit.US)


def make_task(name, graph, runtime, deadline, release, cpus=1):
    strat = ExecutionStrategy(resources=Resources({Resource("CPU", "any"): cpus}), batch_size=1, runtime=us(runtime))
    profile = WorkProfile(name=f"{name}_profile", execution_strategies=ExecutionStrategies([strat]))
    job = Job(name=name, profile=profile)
    return Task(name=name, task_graph=graph, job=job, deadline=us(deadline), release_time=us(release))


def make_job(name, runtime, cpus=1, **kw):
    strat = ExecutionStrategy(resources=Resources({Resource("CPU", "any"): cpus}), batch_size=1, runtime=us(runtime))
    profile = WorkProfile(name=f"{name}_profile", execution_strategies=ExecutionStrategies([strat]))
    return Job(name=name, profile=profile, **kw)


def job_graph(name, edges, n=1, period=1000, start=0, deadline_variance=(0, 0)):
    """edges: {job: [children]}"""
    return JobGraph(name=name, jobs=edges, release_policy=JobGraph.ReleasePolicy.fixed(period=us(period), num_invocations=n, start=us(start)),
                    deadline_variance=deadline_variance)


def workload_of(*job_graphs, horizon=10**7, _flags=None):
    wl = Workload.from_job_graphs({jg.name: jg for jg in job_graphs}, _flags=_flags)
    wl.populate_task_graphs(us(horizon))
    return wl


class OneShotLoader(BaseWorkloadLoader):
    def __init__(self, workload):
        self._w = workload
        self._done = False

    def get_next_workload(self, current_time):
        if self._done:
            return None
        self._done = True
        return self._w


def flags(**kw):
    d = tempfile.mkdtemp(prefix="erdos_probe_")
    base = dict(log_dir=d, log_file_name="sim.log", csv_file_name="out.csv", log_level="info", scheduler_delay=0,
                runtime_variance=0, drop_skipped_tasks=False, verify_schedule=False, scheduler_run_at_worker_free=False,
                workload_update_interval=-1, log_graphs=False, resolve_conditionals_at_submission=False)
    base.update(kw)
    return SimpleNamespace(**base)


def pools(n_cpu=1, n_workers=1):
    ws = [Worker(name=f"w{i}", resources=Resources({Resource("CPU"): n_cpu})) for i in range(n_workers)]
    return WorkerPools([WorkerPool(name="wp", workers=ws)])


def run(sim):
    """simulate() with the chatty stdout loggers silenced; returns None or the exception."""
    import contextlib
    with open(os.devnull, "w") as null, contextlib.redirect_stdout(null):
        saved = sys.stdout
        try:
            sim.simulate()
            return None
        except Exception as exc:  # noqa
            return exc


def csv_rows(fl, *tags):
    rows = [l.strip() for l in open(os.path.join(fl.log_dir, "out.csv"))]
    return [r for r in rows if not tags or r.split(",")[1] in tags]
