"""F19 (LSF): the placements returned by one schedule() call must be jointly feasible.

A pool has a small worker (1 CPU) followed by a large worker (2 CPUs). The first
task offers a fast 2-CPU strategy and a slow 1-CPU strategy; the second task needs
2 CPUs. Only the large worker can host a 2-CPU strategy, so the scheduler may hand
out at most one 2-CPU placement on this pool.
"""
import logging
import sys
from copy import copy

logging.disable(logging.CRITICAL)

from schedulers.lsf_scheduler import LSFScheduler  # noqa: E402
from tests.utils import create_default_task  # noqa: E402
from utils import EventTime  # noqa: E402
from workers import Worker, WorkerPool, WorkerPools  # noqa: E402
from workload import (  # noqa: E402
    ExecutionStrategies,
    ExecutionStrategy,
    Job,
    Resource,
    Resources,
    TaskGraph,
    Workload,
    WorkProfile,
)


def cpu(n):
    return Resources(resource_vector={Resource(name="CPU", _id="any"): n})


def main():
    fast = ExecutionStrategy(
        resources=cpu(2), batch_size=1, runtime=EventTime(10, EventTime.Unit.US)
    )
    slow = ExecutionStrategy(
        resources=cpu(1), batch_size=1, runtime=EventTime(30, EventTime.Unit.US)
    )
    flexible_profile = WorkProfile(
        name="Flexible",
        execution_strategies=ExecutionStrategies(strategies=[fast, slow]),
    )
    flexible = create_default_task(
        name="flexible",
        job=Job(name="flexible"),
        profile=flexible_profile,
        deadline=500,
    )
    rigid = create_default_task(
        name="rigid",
        job=Job(name="rigid"),
        resource_requirements=cpu(2),
        runtime=10,
        deadline=500,
    )
    flexible.release(EventTime(0, EventTime.Unit.US))
    rigid.release(EventTime(1, EventTime.Unit.US))
    task_graph = TaskGraph(name="TestTaskGraph", tasks={flexible: [], rigid: []})
    workload = Workload.from_task_graphs({"TestTaskGraph": task_graph})

    small = Worker(name="Small", resources=Resources({Resource(name="CPU"): 1}))
    large = Worker(name="Large", resources=Resources({Resource(name="CPU"): 2}))
    pool = WorkerPool(name="Pool", workers=[small, large])
    worker_pools = WorkerPools([pool])

    scheduler = LSFScheduler(runtime=EventTime.zero())
    sim_time = EventTime(1, EventTime.Unit.US)
    placements = scheduler.schedule(sim_time, workload, worker_pools)

    decisions = {}
    for placement in placements:
        assert placement.task not in decisions, "More than one decision for a task."
        decisions[placement.task] = placement
    assert set(decisions) == {flexible, rigid}, "A task was left unanswered."

    # Apply the placements, in order, to a fresh image of the cluster exactly as
    # the simulator would. Every placed decision has to be accommodated.
    replay_pools = copy(worker_pools)
    failures = []
    for placement in placements:
        if not placement.is_placed():
            continue
        assert placement.execution_strategy in list(
            placement.task.available_execution_strategies
        ), "Strategy does not belong to the task."
        replay_pool = replay_pools.get_worker_pool(placement.worker_pool_id)
        assert replay_pool is not None, "Unknown worker pool."
        if not replay_pool.can_accomodate_strategy(placement.execution_strategy):
            failures.append(placement)
            continue
        ok = replay_pool.place_task(
            placement.task, execution_strategy=placement.execution_strategy
        )
        if not ok:
            failures.append(placement)

    # Independent capacity accounting: the 2-CPU demands can only go to `large`.
    two_cpu = [
        p
        for p in placements
        if p.is_placed()
        and p.execution_strategy.resources.get_total_quantity(
            Resource(name="CPU", _id="any")
        )
        == 2
    ]
    print(
        "decisions:",
        [
            (
                p.task.name,
                p.is_placed(),
                p.execution_strategy.resources.get_total_quantity(
                    Resource(name="CPU", _id="any")
                )
                if p.is_placed()
                else None,
            )
            for p in placements
        ],
    )
    if failures or len(two_cpu) > 1:
        print(
            "FAIL: the returned placements oversubscribe the pool:",
            [p.task.name for p in (failures or two_cpu)],
        )
        sys.exit(1)
    print("OK")


if __name__ == "__main__":
    main()
