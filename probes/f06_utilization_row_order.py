"""F6: WORKER_POOL_UTILIZATION rows come out in set order of resource names: differs with PYTHONHASHSEED."""
import os, subprocess, sys
CHILD = r'''
import sys
sys.path.insert(0, "/verif/probes")
from harness import *
ws = [Worker(name="w", resources=Resources({Resource("CPU"): 1, Resource("GPU"): 1, Resource("TPU"): 1, Resource("FPGA"): 1, Resource("DSP"): 1}))]
wp = WorkerPools([WorkerPool(name="wp", workers=ws)])
a = make_job("a", 5)
fl = flags()
sim = Simulator(worker_pools=wp, scheduler=EDFScheduler(runtime=us(0)), workload_loader=OneShotLoader(workload_of(job_graph("g", {a: []}))), loop_timeout=us(100), _flags=fl)
run(sim)
print([r.split(",")[3] for r in csv_rows(fl, "WORKER_POOL_UTILIZATION")][:5])
'''
repo = os.environ.get("VERIF_REPO", "/repo")
outs = []
for seed in ("1", "2", "3"):
    env = dict(os.environ, PYTHONHASHSEED=seed)
    outs.append(subprocess.run([sys.executable, "-c", CHILD], capture_output=True, text=True, cwd=repo, env=env).stdout.strip().splitlines()[-1:])
print(outs, "SAME" if outs[0] == outs[1] == outs[2] else "DIFFERENT")
