"""F8: WorkloadLoader.load_job_graph reassigns its `slo` parameter inside the per-node loop: the first node's slo is inherited
by (and overrides) every later node."""
import json, os, sys, tempfile
sys.path.insert(0, "/verif/probes")
import harness  # noqa
from data import WorkloadLoader
spec = {"profiles": [{"name": "p", "execution_strategies": [{"batch_size": 1, "runtime": 10, "resource_requirements": {"CPU:any": 1}}]}],
        "graphs": [{"name": "g", "release_policy": "fixed", "period": 100, "invocations": 1,
                    "graph": [{"name": "a", "work_profile": "p", "slo": 111, "children": ["b", "c"]},
                              {"name": "b", "work_profile": "p", "slo": 222},
                              {"name": "c", "work_profile": "p"}]}]}
path = os.path.join(tempfile.mkdtemp(), "w.json")
json.dump(spec, open(path, "w"))
import contextlib, io
with contextlib.redirect_stdout(io.StringIO()):
    wl = WorkloadLoader(path).workload
jg = wl.get_job_graph("g")
print({j.name: j.slo.time for j in jg.get_nodes()}, "(described: a=111, b=222, c=none(-1))")
