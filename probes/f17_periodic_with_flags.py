"""F17: WorkloadLoader stores the raw --loop_timeout integer when flags are given; a periodic release policy then
calls .to() on an int."""
import json, os, sys, tempfile
sys.path.insert(0, "/verif/probes")
from harness import flags
from data import WorkloadLoader
spec = {"profiles": [{"name": "p", "execution_strategies": [{"batch_size": 1, "runtime": 10, "resource_requirements": {"CPU:any": 1}}]}],
        "graphs": [{"name": "g", "release_policy": "periodic", "period": 100,
                    "graph": [{"name": "a", "work_profile": "p"}]}]}
path = os.path.join(tempfile.mkdtemp(), "w.json")
json.dump(spec, open(path, "w"))
fl = flags(random_seed=7, override_poisson_arrival_rate=0.0, override_gamma_coefficient=0.0, override_arrival_period=0,
           override_num_invocation=0, unique_work_profiles=True, replication_factor=1, override_slo=0, loop_timeout=1000,
           min_deadline_variance=0, max_deadline_variance=0, min_deadline=0, max_deadline=10**9, use_branch_predicated_deadlines=False,
           decompose_deadlines=False)
try:
    wl = WorkloadLoader(path, _flags=fl).workload
    print("loaded", sorted(tg.release_time.time for tg in wl.task_graphs.values()))
except Exception as e:  # noqa
    print("WorkloadLoader raised:", repr(e))
