"""F18?: TetriSched (Gurobi/CPLEX) model a RUNNING task as occupying its worker for its *full* runtime from now,
not its remaining time: an offered task that fits right after the running one really ends is left unplaced."""
from harness import *  # noqa
import contextlib, io
from workload import Placement

def scenario(make_sched):
    a = make_job("a", 10)
    b = make_job("b", 2)
    wl = workload_of(job_graph("ga", {a: []}), job_graph("gb", {b: []}))
    ta = list(wl.get_task_graph("ga@0").get_nodes())[0]
    tb = list(wl.get_task_graph("gb@0").get_nodes())[0]
    wps = pools(1)
    pool = list(wps.worker_pools)[0]
    worker = pool.workers[0]
    # a: released at 0, running since 0 on the only CPU, 2us left at now=8
    ta.release(us(0)); tb.release(us(0))
    sa = ta.available_execution_strategies[0]
    pl = Placement.create_task_placement(task=ta, placement_time=us(0), worker_pool_id=pool.id, worker_id=worker.id, execution_strategy=sa)
    ta.schedule(us(0), pl)
    pool.place_task(ta, execution_strategy=sa, worker_id=worker.id)
    ta.start(us(0))
    ta.step(us(0), us(8))
    tb.update_deadline(us(15))
    s = make_sched()
    with contextlib.redirect_stdout(io.StringIO()):
        ps = s.schedule(us(8), wl, wps)
    return ta.remaining_time, [(p.task.name, p.is_placed(), p.placement_time) for p in ps]

from schedulers import TetriSchedGurobiScheduler, TetriSchedCPLEXScheduler, ILPScheduler
for name, mk in (("TetriSchedGurobi", lambda: TetriSchedGurobiScheduler(runtime=us(0), enforce_deadlines=True, plan_ahead=us(20))),
                 ("TetriSchedCPLEX", lambda: TetriSchedCPLEXScheduler(runtime=us(0), enforce_deadlines=True, plan_ahead=us(20))),
                 ("ILP", lambda: ILPScheduler(runtime=us(0), enforce_deadlines=True, lookahead=us(0)))):
    try:
        rem, res = scenario(mk)
        print(name, "| a remaining:", rem, "| decisions:", res, "| b fits at 10..13 (deadline 15)")
    except Exception as e:  # noqa
        print(name, "raised", repr(e)[:200])
