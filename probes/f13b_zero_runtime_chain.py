"""After the F13 repair: zero-runtime tasks in chains and in parallel finish exactly once."""
from harness import *  # noqa
a = make_job("a", 0); b = make_job("b", 0); c = make_job("c", 5); d = make_job("d", 0); e = make_job("e", 7)
wl = workload_of(job_graph("g1", {a: [b], b: [c], c: []}), job_graph("g2", {d: []}), job_graph("g3", {e: []}))
fl = flags()
sim = Simulator(worker_pools=pools(4), scheduler=EDFScheduler(runtime=us(0)), workload_loader=OneShotLoader(wl),
                loop_timeout=us(10**6), _flags=fl)
e = run(sim)
print(e, csv_rows(fl, "TASK_FINISHED", "SIMULATOR_END"))
