"""F13: a task whose chosen strategy has zero runtime is never reported finished: simulate() spins forever."""
import signal
from harness import *  # noqa

a = make_job("a", 0)
wl = workload_of(job_graph("g1", {a: []}))
sim = Simulator(worker_pools=pools(1), scheduler=EDFScheduler(runtime=us(0)), workload_loader=OneShotLoader(wl),
                loop_timeout=us(10**6), _flags=flags())


def bail(*_):
    print("HANG: simulate() still looping after 5 s of wall time; clock =", sim._simulator_time,
          "placed tasks:", [t.unique_name for t in sim._worker_pools.get_placed_tasks()])
    raise SystemExit(1)


signal.signal(signal.SIGALRM, bail)
signal.alarm(5)
e = run(sim)
print("simulate() returned; clock =", sim._simulator_time, e)
