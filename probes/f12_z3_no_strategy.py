"""F12: Z3Scheduler returns placed decisions without an execution strategy; the simulator dereferences it."""
from harness import *  # noqa
from schedulers import Z3Scheduler

a = make_job("a", 10)
wl = workload_of(job_graph("g1", {a: []}))
sim = Simulator(worker_pools=pools(1), scheduler=Z3Scheduler(runtime=us(0)), workload_loader=OneShotLoader(wl),
                loop_timeout=us(1000), _flags=flags())
e = run(sim)
print("simulate() returned" if e is None else "simulate() raised: " + repr(e))
