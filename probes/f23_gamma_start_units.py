"""F23: the gamma (and closed-loop) release policy reads its start time without unit conversion and labels it microseconds."""
import logging
import sys

logging.disable(logging.CRITICAL)
from utils import EventTime  # noqa: E402
from workload import JobGraph  # noqa: E402

us = EventTime.Unit.US
bad = []
for name, pol in (("gamma", JobGraph.ReleasePolicy.gamma(rate=0.01, coefficient=1.0, num_invocations=3, start=EventTime(2, EventTime.Unit.MS), rng_seed=1)),
                  ("poisson", JobGraph.ReleasePolicy.poisson(rate=0.01, num_invocations=3, start=EventTime(2, EventTime.Unit.MS), rng_seed=1))):
    rel = pol.get_release_times(completion_time=EventTime(10, EventTime.Unit.S))
    first = rel[0].to(us).time
    print(name, "first release (us):", first, [r.to(us).time for r in rel])
    if first != 2000:
        bad.append(f"{name}: starts at {first}us, described start is 2 ms = 2000us")
if bad:
    print("FAIL:", bad)
    sys.exit(1)
print("OK")
