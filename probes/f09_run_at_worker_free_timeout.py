"""F9: --scheduler_run_at_worker_free with a loop timeout: next scheduler start is not re-checked against the timeout."""
from harness import *  # noqa

a = make_job("a", 100)
b = make_job("b", 100)
wl = workload_of(job_graph("g1", {a: []}), job_graph("g2", {b: []}))
fl = flags(scheduler_run_at_worker_free=True)
sim = Simulator(worker_pools=pools(1), scheduler=EDFScheduler(runtime=us(0)), workload_loader=OneShotLoader(wl),
                loop_timeout=us(50), _flags=fl)
e = run(sim)
print("simulate() returned; clock =" if e is None else "simulate() raised:", sim._simulator_time if e is None else repr(e))
