"""F7: two processes loading the same poisson workload with the same --random_seed get different release times."""
import json, os, subprocess, sys, tempfile
CHILD = r'''
import sys, random, json
sys.path.insert(0, "/verif/probes"); sys.path.insert(0, sys.argv[2])
from harness import flags
random.seed(7)
from data import WorkloadLoader
fl = flags(random_seed=7, override_poisson_arrival_rate=0.0, override_gamma_coefficient=0.0, override_arrival_period=0,
           override_num_invocation=0, unique_work_profiles=True, replication_factor=1, override_slo=0, loop_timeout=10**9,
           min_deadline_variance=0, max_deadline_variance=0, min_deadline=0, max_deadline=10**9, use_branch_predicated_deadlines=False,
           decompose_deadlines=False)
wl = WorkloadLoader(sys.argv[1], _flags=fl).workload
print(json.dumps(sorted(tg.release_time.time for tg in wl.task_graphs.values())))
'''
spec = {"profiles": [{"name": "p", "execution_strategies": [{"batch_size": 1, "runtime": 10, "resource_requirements": {"CPU:any": 1}}]}],
        "graphs": [{"name": "g", "release_policy": "poisson", "rate": 0.01, "invocations": 5,
                    "graph": [{"name": "a", "work_profile": "p"}]}]}
d = tempfile.mkdtemp()
path = os.path.join(d, "w.json")
json.dump(spec, open(path, "w"))
repo = os.environ.get("VERIF_REPO", "/repo")
outs = [subprocess.run([sys.executable, "-c", CHILD, path, repo], capture_output=True, text=True, cwd=repo).stdout.strip().splitlines()[-1:] for _ in range(2)]
print(outs[0], outs[1], "SAME" if outs[0] == outs[1] else "DIFFERENT")
