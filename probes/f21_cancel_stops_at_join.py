"""F21: TaskGraph.cancel leaves descendants of a cancelled task alive when the traversal meets a spared join first.

        Cond ──> A ──> A1 ──> J (terminal join, other parent B stays alive)
          │      └───> A2 ──> X
          └────> B ──────────> J
Cancelling A (branch not taken) must cancel A, A1, A2, X and spare J. The cascade is a `for child in depth_first(A)` loop
that `break`s at the first spared join, so whatever is still on the traversal's stack at that moment is never visited.
"""
import logging
import sys

logging.disable(logging.CRITICAL)

from tests.utils import create_default_task  # noqa: E402
from utils import EventTime  # noqa: E402
from workload import Job, TaskGraph  # noqa: E402
from workload.tasks import TaskState  # noqa: E402


def build(order):
    mk = lambda n, **kw: create_default_task(name=n, job=Job(name=n, **kw), **{k: v for k, v in kw.items() if k in ("conditional", "terminal")})  # noqa: E731
    cond = create_default_task(name="Cond", job=Job(name="Cond", conditional=True))
    a, b, a1, a2, x = (create_default_task(name=n, job=Job(name=n)) for n in ("A", "B", "A1", "A2", "X"))
    j = create_default_task(name="J", job=Job(name="J", terminal=True))
    kids = [a1, a2] if order == "join-branch-first" else [a2, a1]
    tg = TaskGraph(name="G", tasks={cond: [a, b], a: kids, a1: [j], a2: [x], b: [j], j: [], x: []})
    return tg, dict(A=a, B=b, A1=a1, A2=a2, X=x, J=j)


bad = []
for order in ("join-branch-first", "join-branch-last"):
    tg, t = build(order)
    cancelled = tg.cancel(t["A"], EventTime(5, EventTime.Unit.US))
    names = sorted(c.name for c in cancelled)
    alive = [n for n in ("A", "A1", "A2", "X") if t[n].state != TaskState.CANCELLED]
    print(order, "cancelled:", names, "J:", t["J"].state.name, "still alive below A:", alive)
    if alive or t["J"].state == TaskState.CANCELLED:
        bad.append((order, alive))
if bad:
    print("FAIL: descendants of the cancelled task that can no longer receive their inputs were not cancelled:", bad)
    sys.exit(1)
print("OK")
