"""F16: BranchPredictionScheduler passes worker_pools positionally into the retract_schedules slot:
an already SCHEDULED task is offered (and decided again) although retraction is off."""
from harness import *  # noqa
from schedulers import BranchPredictionScheduler
from workload import Placement

a = make_job("a", 10)
wl = workload_of(job_graph("g1", {a: []}))
tg = list(wl.task_graphs.values())[0]
task = list(tg.get_nodes())[0]
wps = pools(2)
task.release(us(0))
strat = task.available_execution_strategies[0]
task.schedule(us(0), Placement.create_task_placement(task=task, placement_time=us(50), worker_pool_id=list(wps.worker_pools)[0].id, execution_strategy=strat))
s = BranchPredictionScheduler(runtime=us(0))
print("retract_schedules =", s.retract_schedules, "| task state =", task.state)
import contextlib, io
with contextlib.redirect_stdout(io.StringIO()):
    ps = s.schedule(us(1), wl, wps)
print("decisions returned for the SCHEDULED task:", [(p.task.unique_name, p.is_placed()) for p in ps])
