"""F22: critical-path runtime / completion time are memoised and not dropped when the graph changes afterwards."""
import logging
import sys

logging.disable(logging.CRITICAL)

from tests.utils import create_default_task  # noqa: E402
from utils import EventTime  # noqa: E402
from workload import ExecutionStrategies, ExecutionStrategy, Job, JobGraph, Resource, Resources, TaskGraph, WorkProfile  # noqa: E402

a = create_default_task(name="A", job=Job(name="A"), runtime=10)
b = create_default_task(name="B", job=Job(name="B"), runtime=20)
c = create_default_task(name="C", job=Job(name="C"), runtime=30)
tg = TaskGraph(name="G", tasks={a: [b], b: []})
first = tg.critical_path_runtime.to(EventTime.Unit.US).time
tg.add_task(c)
tg.add_child(b, c)
second = tg.critical_path_runtime.to(EventTime.Unit.US).time
print("TaskGraph critical path before / after appending C (30us) below B:", first, second)
bad = []
if second != 60:
    bad.append(f"TaskGraph.critical_path_runtime is {second}us after the graph grew to A->B->C (10+20+30)")
tg2 = TaskGraph(name="H", tasks={a: [b], b: [], c: []})
x = tg2.critical_path_runtime.to(EventTime.Unit.US).time
tg2.update_edges({a: [b], b: [c], c: []})
y = tg2.critical_path_runtime.to(EventTime.Unit.US).time
print("after update_edges:", x, y)
if y != 60:
    bad.append(f"TaskGraph.critical_path_runtime is {y}us after update_edges made the chain A->B->C")


def job(name, t):
    prof = WorkProfile(name=name + "P", execution_strategies=ExecutionStrategies([ExecutionStrategy(
        resources=Resources({Resource(name="CPU", _id="any"): 1}), batch_size=1, runtime=EventTime(t, EventTime.Unit.US))]))
    return Job(name=name, profile=prof)


ja, jb, jc = job("A", 10), job("B", 20), job("C", 30)
jg = JobGraph(name="J", jobs={ja: [jb], jb: []})
p = jg.completion_time.to(EventTime.Unit.US).time
jg.add_job(jc)
jg.add_child(jb, jc)
q = jg.completion_time.to(EventTime.Unit.US).time
r = jg.critical_path_runtime.to(EventTime.Unit.US).time
print("JobGraph completion time before / after:", p, q, "critical path:", r)
if q != 60:
    bad.append(f"JobGraph.completion_time is {q}us after the graph grew (deadlines are release + completion time)")
if bad:
    print("FAIL:", bad)
    sys.exit(1)
print("OK")
