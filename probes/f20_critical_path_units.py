"""F20: deadline decomposition picks the critical path by comparing runtimes in their own units.

JobGraph  A -> B            (B: 2 ms)
          A -> C -> D       (C, D: 900 us each)
In microseconds the heaviest source-to-sink path is A, B (10 + 2000); by raw `.time` numbers it is A, C, D (10 + 900 + 900),
because B's `.time` is 2. With --decompose_deadlines the per-stage deadlines are derived from that path.
"""
import logging
import sys
from types import SimpleNamespace

logging.disable(logging.CRITICAL)

from utils import EventTime  # noqa: E402
from workload import ExecutionStrategies, ExecutionStrategy, Job, JobGraph, Resource, Resources, WorkProfile  # noqa: E402


def job(name, t, unit):
    prof = WorkProfile(name=name + "P", execution_strategies=ExecutionStrategies([ExecutionStrategy(
        resources=Resources({Resource(name="CPU", _id="any"): 1}), batch_size=1, runtime=EventTime(t, unit))]))
    return Job(name=name, profile=prof)


a, b, c, d = job("A", 10, EventTime.Unit.US), job("B", 2, EventTime.Unit.MS), job("C", 900, EventTime.Unit.US), job("D", 900, EventTime.Unit.US)
jg = JobGraph(name="G", jobs={a: [b, c], b: [], c: [d], d: []})
flags = SimpleNamespace(min_deadline_variance=0, max_deadline_variance=0, min_deadline=0, max_deadline=sys.maxsize,
                        use_branch_predicated_deadlines=False, resolve_conditionals_at_submission=False, log_dir=None,
                        log_file_name=None, log_level="error", decompose_deadlines=True, random_seed=0)
tg = jg._generate_task_graph(release_time=EventTime.zero(), task_graph_name="G@0", timestamp=0, _flags=flags)
true_cp = tg.get_longest_path(lambda t: t.slowest_execution_strategy.runtime.to(EventTime.Unit.US).time)
names = [t.name for t in true_cp]
dl = {t.name: t.deadline.to(EventTime.Unit.US).time for t in tg.get_nodes()}
print("critical path in us:", names, "deadlines:", dl)
# the sink of the true critical path (B) must carry the graph deadline share of the critical path, i.e. the last stage deadline
total = sum(t.slowest_execution_strategy.runtime.to(EventTime.Unit.US).time for t in true_cp)
want_b = int(tg.deadline.to(EventTime.Unit.US).time * 2000 / total) if False else None
# decomposition is proportional along the critical path: A gets D*10/2010, B gets D*2000/2010
graph_deadline = 2010  # release 0 + completion time 2010us, variance 0
exp_a = int(graph_deadline * 10 / 2010)
if dl["A"] != exp_a:
    print(f"FAIL: stage deadline of A is {dl['A']}us, expected {exp_a}us (share of A on the true critical path A,B)")
    sys.exit(1)
print("OK")
