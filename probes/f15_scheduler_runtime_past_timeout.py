"""F15: the scheduler invocation finishes after the loop timeout: SIMULATOR_END is created at loop_timeout, i.e. in the past."""
from harness import *  # noqa
from schedulers import BaseScheduler
from workload import Placements


class SlowNoopScheduler(BaseScheduler):
    def __init__(self, runtime):
        super().__init__(preemptive=False, runtime=runtime, lookahead=EventTime.zero())

    def schedule(self, sim_time, workload, worker_pools):
        return Placements(runtime=self._runtime, true_runtime=self._runtime, placements=[])


a = make_job("a", 100)
wl = workload_of(job_graph("g1", {a: []}))
sim = Simulator(worker_pools=pools(1), scheduler=SlowNoopScheduler(us(100)), workload_loader=OneShotLoader(wl),
                loop_timeout=us(50), _flags=flags())
e = run(sim)
print("simulate() returned; clock =" if e is None else "simulate() raised:", sim._simulator_time if e is None else repr(e))
