#!/usr/bin/env python3
"""Regenerates MANIFEST.json from the rule modules present under sa/rules."""
import importlib
import json
import os
import sys

HERE = os.path.dirname(os.path.dirname(os.path.abspath(__file__)))
sys.path.insert(0, HERE)

TITLES = {}
for line in open(os.path.join(HERE, "properties.jsonl")):
    p = json.loads(line)
    TITLES[p["id"]] = p["title"]

NA = {
    "C20": "STRL compilation is C++ whose model semantics (every solution of a generated MILP, brute-force optimum) "
           "are numeric/solver properties, not shapes of the code; no type-resolved C++ front end is usable here "
           "(TBB/Gurobi/pybind11 headers absent, no libclang); a text proxy would be a frozen-fragment rule (DESIGN.md section 5)",
}

TECHNIQUE = {
 "C01": "static analysis: CFG dominance of the availability guard over ledger writes, who-may-call over the whole repo, per-path effect bundles, guard algebra, loop-invariant verification of Resources.allocate per loop-body path (linear arithmetic), cache-coherence and copy-independence analysis of the ledger classes",
 "C02": "static analysis: who-may-call, CFG edge-dominance of readiness over start, backward origin analysis of TASK_RELEASE tasks, typestate reachability, per-state evaluation of Task.is_complete, own-release-time rule for release events",
 "C03": "static analysis: write-site analysis of the clock, path enumeration of one simulate() iteration, linear-form checks of event times and Task.step, must-pass-through of Task.schedule, dominance of task.schedule over installed placement events",
 "C04": "static analysis: per-path effect summaries of Worker mutators (allowed bundles), mutation->refusal reachability (exception safety), copy-completeness/aliasing analysis, path-condition entailment of the batch-emptiness guard, additive-accumulation check of Resources.__add__, cache-coherence analysis (memoised values vs mutators)",
 "C05": "static analysis: path enumeration of the next-scheduler routine (timeout dominance), event-time provability, exit-structure dominance, symbolic remaining time in Task.step, guard-algebra entailment of the end-of-work decision, formal/actual binding of the timeout, per-state partial evaluation of Task.remaining_time",
 "C06": "static analysis: finite-domain abstract interpretation of Task (typestate relation over 8x8 states), exhaustive product BFS, value flow of cancellation results, scoping/equivalence/per-state evaluation of the cascade exemptions in TaskGraph.cancel, pruned-worklist shape of the cascade, cache coherence of the sink set",
 "C07": "static analysis: path enumeration of the conditional branch (release counting), argument-role checks of the draw, loop/guard shape of submission-time resolution",
 "C08": "static analysis: CSV row schema extraction (writer) vs reader column uses with a frozen role table, keyword/attribute agreement, counter site/guard analysis",
 "C09": "static analysis: determinism lints - inter-procedural seed flow, uuid sources, seeding-order dominance, set-iteration (hash order) consumers, wall-clock taint",
 "C10": "static analysis: inter-procedural LIVE/SCRATCH taint (effect analysis) with a positive fixture, decision counting by path enumeration, constraint-shape normalisation, linear comparison of the capacity time grid with the placement-cell grid, copy-independence, aggregate accessors of BatchTask, configuration write-once rule",
 "C11": "static analysis: must-call dominance before the solve, linear normalisation of precedence constraints, indicator-pair complementarity, controlling-condition analysis of the parent set, start pin of running tasks",
 "C12": "static analysis: guard-algebra equivalence of the four admission tests, linear-expression builder model of the ILP deadline constraint, path-condition entailment of cell gating",
 "C13": "static analysis: sort-key normalisation (through partial/attrgetter/lambda), flag-aware path enumeration of the greedy placement loop",
 "C14": "static analysis: path-condition entailment (cell gating exactness), occupancy-window entailment in both directions, sibling cross-check, indicator gap analysis, entailment of the solve-call guards by the offer condition",
 "C15": "static analysis: guard dominance and shape checks of the Clockwork queues (profile guard, batch slicing, removal, availability and expiry predicates)",
 "C16": "static analysis: post-dominance of reheapify after re-timing, heap-list encapsulation, path-wise check of the ordering key, enum priority relations, EventTime operator shapes",
 "C17": "static analysis: worklist-discipline rule for traversals, structural checks of topological sort / longest path / depth / dependency, unit lint of longest-path weights, who-may-write and pairing of the adjacency maps, cache-coherence analysis (cached_property / memo fields vs graph mutators)",
 "C18": "static analysis: partial evaluation of the offer selection for every TaskState, polarity analysis of lookahead/release_taskgraphs, call-site parameter agreement, lower-bound (max) analysis of the completion-time estimates, purity (no memo) of the frontier queries",
 "C19": "static analysis: cross-iteration reaching definitions into constructors, dispatch/keyword agreement, configuration type agreement, closed-loop budget dominance, flag threading at instantiation calls, release-grid linear forms, wildcard-id rule for inventories",
}

checks = []
not_applicable = []
fix_commits = []
kf = os.path.join(HERE, "known_findings.json")
if os.path.exists(kf):
    for line in json.load(open(kf)).get("fixed", []):
        parts = line.split()
        if len(parts) >= 3:
            fix_commits.append(parts[2])

for pid in sorted(TITLES):
    try:
        mod = importlib.import_module(f"sa.rules.{pid.lower()}")
    except ModuleNotFoundError:
        not_applicable.append({"property_id": pid, "reason": NA.get(pid, "no static rule built for this property yet")})
        continue
    checks.append({
        "property_id": pid,
        "quick_cmd": f"./check {pid} --tier quick",
        "thorough_cmd": f"./check {pid} --tier thorough",
        "evidence_file": f"/verif/evidence/{pid}.json",
        "replay_cmd_template": "cat {path}",
        "engine": "sa",
        "technique": TECHNIQUE.get(pid, "static analysis: custom AST/CFG/dataflow rules over the repository source"),
        "level_claimed": {
            "category": "other",
            "text": (
                "Static analysis of the repository's current source (never executed): the structural clauses of this property "
                "named in level_note are decided for every path of the anchored functions. Each clause is a necessary condition "
                "of the behaviour (breaking it breaks the property for some input). Behaviour-preserving rewrites are absorbed "
                "before the rules run: every function that differs from the pinned one is renamed / canonicalised / compared in a "
                "normal form under program equivalences (DESIGN.md section 10), guards are compared as normalised formulas, anchors "
                "are found by role. It does not decide the run-time behaviour as a whole: the undecided remainder is listed after "
                "'NOT decided' in level_note. The thorough tier additionally validates the checker itself: every listed source mutant "
                "and every independently seeded breaking change must be reported, and every behaviour-preserving twin and every "
                "independently written refactoring must stay silent."),
            "design_ref": f"DESIGN.md section 4, {pid}",
        },
        "level_note": getattr(mod, "EXPLANATION", ""),
    })

manifest = {
    "version": 1,
    "setup_cmd": "sh -c 'if [ -x /venv/bin/python ]; then PY=/venv/bin/python; else PY=python3; fi; $PY -m compileall -q sa >/dev/null && $PY -c \"import sa.main\"'",
    "hooks": {
        "guard": "ERDOS_SIM_VERIF (unused: the checks are purely static and need no instrumentation of /repo)",
        "enable": "not needed; checks parse /repo's working tree",
        "baseline_off_cmd": "cd /repo && /venv/bin/python -m pytest -ra -q -p no:cacheprovider --timeout=900 --continue-on-collection-errors",
        "source_commits": fix_commits,
        "add_only": True,
    },
    "engines": [{
        "name": "sa",
        "path": "/verif/sa",
        "serves_properties": [c["property_id"] for c in checks],
        "kind_free_text": "repository-specific static analysis on Python's ast: program index, statement CFG with dominators and "
                          "bounded path enumeration, guard algebra over linear time expressions, finite-domain typestate "
                          "interpreter, effect summaries, CSV row schema extraction, value-flow; reference-guided canonicalisation and a normal "
                          "form of functions under program equivalences (alpha / canon / nf); stdlib only",
    }],
    "checks": checks,
    "not_applicable": not_applicable,
    "notes": "Exit codes: 0 held, 1 VIOLATION, 2 ANALYSIS-ERROR (anchor lost / idiom not recognised; never a silent pass). "
             "known_findings.json lists recorded findings and fixed: entries.",
}
json.dump(manifest, open(os.path.join(HERE, "MANIFEST.json"), "w"), indent=1)
print(f"claimed={len(checks)} not_applicable={len(not_applicable)}")
