#!/usr/bin/env python3
"""Regenerates MANIFEST.json from the rule modules present under sa/rules."""
import importlib
import json
import os
import sys

HERE = os.path.dirname(os.path.dirname(os.path.abspath(__file__)))
sys.path.insert(0, HERE)

TITLES = {}
for line in open(os.path.join(HERE, "properties.jsonl")):
    p = json.loads(line)
    TITLES[p["id"]] = p["title"]

NA = {
    "C20": "STRL compilation is C++ whose model semantics (every solution of a generated MILP, brute-force optimum) "
           "are numeric/solver properties, not shapes of the code; no type-resolved C++ front end is usable here "
           "(TBB/Gurobi/pybind11 headers absent, no libclang); a text proxy would be a frozen-fragment rule (DESIGN.md section 5)",
}

checks = []
not_applicable = []
fix_commits = []
kf = os.path.join(HERE, "known_findings.json")
if os.path.exists(kf):
    for line in json.load(open(kf)).get("fixed", []):
        parts = line.split()
        if len(parts) >= 3:
            fix_commits.append(parts[2])

for pid in sorted(TITLES):
    try:
        mod = importlib.import_module(f"sa.rules.{pid.lower()}")
    except ModuleNotFoundError:
        not_applicable.append({"property_id": pid, "reason": NA.get(pid, "no static rule built for this property yet")})
        continue
    checks.append({
        "property_id": pid,
        "quick_cmd": f"./check {pid} --tier quick",
        "thorough_cmd": f"./check {pid} --tier thorough",
        "evidence_file": f"/verif/evidence/{pid}.json",
        "replay_cmd_template": "cat {path}",
        "engine": "sa",
        "technique": getattr(mod, "TECHNIQUE", "static analysis: custom AST/CFG/dataflow rules over the repository source"),
        "level_claimed": {
            "category": "other",
            "text": getattr(mod, "LEVEL_TEXT", "") or (
                "Static analysis of the current source: every structural clause listed in DESIGN.md for this property "
                "is decided on all paths of the anchored functions (dominance, typestate, effect, who-may-call, "
                "writer/reader agreement). It decides those necessary structural clauses, not the run-time behaviour "
                "as a whole; the undecided remainder is stated in the evidence explanation."),
            "design_ref": f"DESIGN.md section 4, {pid}",
        },
        "level_note": getattr(mod, "EXPLANATION", ""),
    })

manifest = {
    "version": 1,
    "setup_cmd": "sh -c 'if [ -x /venv/bin/python ]; then PY=/venv/bin/python; else PY=python3; fi; $PY -m compileall -q sa >/dev/null && $PY -c \"import sa.main\"'",
    "hooks": {
        "guard": "ERDOS_SIM_VERIF (unused: the checks are purely static and need no instrumentation of /repo)",
        "enable": "not needed; checks parse /repo's working tree",
        "baseline_off_cmd": "cd /repo && /venv/bin/python -m pytest -ra -q -p no:cacheprovider --timeout=900 --continue-on-collection-errors",
        "source_commits": fix_commits,
        "add_only": True,
    },
    "engines": [{
        "name": "sa",
        "path": "/verif/sa",
        "serves_properties": [c["property_id"] for c in checks],
        "kind_free_text": "repository-specific static analysis on Python's ast: program index, statement CFG with dominators and "
                          "bounded path enumeration, guard algebra over linear time expressions, finite-domain typestate "
                          "interpreter, effect summaries, CSV row schema extraction, value-flow; stdlib only",
    }],
    "checks": checks,
    "not_applicable": not_applicable,
    "notes": "Exit codes: 0 held, 1 VIOLATION, 2 ANALYSIS-ERROR (anchor lost / idiom not recognised; never a silent pass). "
             "known_findings.json lists recorded findings and fixed: entries.",
}
json.dump(manifest, open(os.path.join(HERE, "MANIFEST.json"), "w"), indent=1)
print(f"claimed={len(checks)} not_applicable={len(not_applicable)}")
