#!/usr/bin/env python3
"""Soundness probe of the whole normalisation pipeline (sa/alpha.py: rename, normal form, piecewise canonicalisation): a generic
semantic mutant of a pinned function (operators of tools/mutation_sweep.py plus swapped adjacent statements, swapped call arguments
and wrong-variable reads) must not come out of `alpha.normalise` as the pinned
function. Every mutant that does is printed for triage (acceptable only when it is an equivalent mutant). Non-gating hole finder.
usage: tools/canon_soundness.py [module-substring]
"""
import ast
import json
import os
import sys
import textwrap
from concurrent.futures import ProcessPoolExecutor

HERE = os.path.dirname(os.path.dirname(os.path.abspath(__file__)))
sys.path.insert(0, HERE)
sys.path.insert(0, os.path.join(HERE, "tools"))
from sa import alpha  # noqa: E402
import mutation_sweep as ms  # noqa: E402


def wrap(q: str, fsrc: str) -> str:
    parts = q.split(".")
    out = ""
    for d, c in enumerate(parts[:-1]):
        out += "    " * d + f"class {c}:\n"
    return out + textwrap.indent(fsrc, "    " * (len(parts) - 1)) + "\n"


def extra_sites(fn):
    """Further operators: two adjacent simple statements swapped; the first two positional arguments of a call swapped; a read of one
    local replaced by a read of another local (wrong-variable slip)."""
    idx = 0
    stored = sorted({n.id for n in ast.walk(fn) if isinstance(n, ast.Name) and isinstance(n.ctx, ast.Store)})
    n_names = 0
    for n in ast.walk(fn):
        idx += 1
        for f in ("body", "orelse"):
            b = getattr(n, f, None)
            if isinstance(b, list) and b and isinstance(b[0], ast.stmt):
                for k in range(len(b) - 1):
                    if isinstance(b[k], (ast.Assign, ast.AugAssign, ast.Expr)) and isinstance(b[k + 1], (ast.Assign, ast.AugAssign, ast.Expr)):
                        yield (f"L{b[k].lineno} swap statements: {ast.unparse(b[k])[:40]} <-> {ast.unparse(b[k + 1])[:40]}", ("swapstmt", idx, (f, k)))
        if isinstance(n, ast.Call) and len(n.args) >= 2 and not any(isinstance(a, ast.Starred) for a in n.args[:2]) \
                and ast.unparse(n.args[0]) != ast.unparse(n.args[1]):
            yield (f"L{n.lineno} swap arguments: {ast.unparse(n)[:60]}", ("swapargs", idx, None))
        if isinstance(n, ast.Name) and isinstance(n.ctx, ast.Load) and n.id in stored and len(stored) > 1 and n_names < 25:
            other = stored[(stored.index(n.id) + 1) % len(stored)]
            n_names += 1
            yield (f"L{n.lineno} read of {n.id} -> {other}", ("name", idx, other))


def apply_extra(fn, spec) -> bool:
    kind, target, arg = spec
    idx = 0
    for n in ast.walk(fn):
        idx += 1
        if idx != target:
            continue
        if kind == "swapstmt":
            f, k = arg
            b = getattr(n, f)
            b[k], b[k + 1] = b[k + 1], b[k]
        elif kind == "swapargs":
            n.args[0], n.args[1] = n.args[1], n.args[0]
        elif kind == "name":
            n.id = arg
        return True
    return False


def one(args):
    rel, q, src = args
    fn0 = ast.parse(src).body[0]
    away = []
    n = 0
    for desc, spec in list(ms.sites(fn0)) + list(extra_sites(fn0)):
        tree = ast.parse(src)
        fn = tree.body[0]
        if spec[0] in ("swapstmt", "swapargs", "name"):
            if not apply_extra(fn, spec):
                continue
            victim = None
        else:
            victim = ms.apply(fn, spec)
        if victim is not None:
            kind = spec[0]
            new = ast.Pass() if kind == "del" else (ast.Break() if kind == "c2b" else ast.Continue())
            if not ms.replace_stmt(tree, victim, new):
                continue
        ast.fix_missing_locations(tree)
        try:
            msrc = ast.unparse(tree)
            compile(msrc, rel, "exec")
        except Exception:
            continue
        if msrc == src:
            continue
        n += 1
        mod_src = wrap(q, msrc)
        try:
            mt = ast.parse(mod_src)
            alpha.normalise(mt, rel, mod_src)
        except Exception:
            continue
        for q2, f2 in alpha.iter_functions(mt):
            if q2 == q and ast.unparse(f2) == src:
                away.append(desc)
    return rel, q, n, away


def main():
    ref = json.load(open(alpha.REF_PATH))
    sub = next((a for a in sys.argv[1:] if not a.startswith("--")), "")
    jobs = []
    for rel, d in ref.items():
        if rel.startswith("__") or sub not in rel:
            continue
        for q, e in d.items():
            if not q.startswith("__") and "src" in e:
                jobs.append((rel, q, e["src"]))
    total = gone = 0
    with ProcessPoolExecutor(max_workers=12) as ex:
        for rel, q, n, away in ex.map(one, jobs, chunksize=4):
            total += n
            for desc in away:
                gone += 1
                print(f"NORMALISED-AWAY {rel}::{q}  {desc}")
    print(f"functions {len(jobs)} mutants {total} normalised-away {gone}")


if __name__ == "__main__":
    main()
