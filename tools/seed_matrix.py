#!/usr/bin/env python3
"""Apply every seeded change in memory and run every property's rules on it: prints which rules catch which change.

usage: tools/seed_matrix.py [--write]   (--write stores the result as `caught_by` in each seeded/<id>/meta.json)
"""
import json
import os
import sys
from concurrent.futures import ProcessPoolExecutor

HERE = os.path.dirname(os.path.dirname(os.path.abspath(__file__)))
sys.path.insert(0, HERE)

from sa import seeded  # noqa: E402

PROPS = [f"C{i:02d}" for i in range(1, 20)]
ROOT = os.environ.get("VERIF_REPO", "/repo")


def one(args):
    sid, prop, text = args
    ov = seeded.apply_patch(ROOT, text)
    if ov is None:
        return sid, prop, "stale", [], ""
    st, keys, err = seeded.run_on_variant(prop, ROOT, ov)
    return sid, prop, st, sorted({k.split("|")[0] for k in keys}), err


def main():
    only = [a for a in sys.argv[1:] if not a.startswith("--")]
    ss = [s for s in seeded.seeds_raw() if not only or s["id"] in only]
    jobs = [(s["id"], p, s["patch_text"]) for s in ss for p in PROPS]
    res = {}
    with ProcessPoolExecutor(max_workers=16) as ex:
        for sid, prop, st, rules, err in ex.map(one, jobs, chunksize=2):
            d = res.setdefault(sid, {"caught_by": {}, "errors": {}})
            if st == "violations":
                d["caught_by"][prop] = rules
            elif st != "clean":
                d["errors"][prop] = (st + " " + err)[:100]
    for sid in sorted(res):
        print(sid, json.dumps(res[sid]["caught_by"]), res[sid]["errors"] or "")
        if "--write" in sys.argv:
            mp = os.path.join(seeded.SEEDED_DIR, sid, "meta.json")
            meta = json.load(open(mp)) if os.path.exists(mp) else {}
            meta["caught_by"] = res[sid]["caught_by"]
            with open(mp, "w") as fh:
                json.dump(meta, fh, indent=1)
                fh.write("\n")


if __name__ == "__main__":
    main()
