#!/usr/bin/env python3
"""Re-run tools/eval_seed.py for every kept seed against /repo's current HEAD (8 at a time); one line per seed."""
import json
import os
import subprocess
import sys
from concurrent.futures import ThreadPoolExecutor

HERE = os.path.dirname(os.path.dirname(os.path.abspath(__file__)))


def one(sid):
    p = subprocess.run(["/venv/bin/python", os.path.join(HERE, "tools", "eval_seed.py"), os.path.join(HERE, "seeded", sid)], capture_output=True, text=True)
    try:
        d = json.loads(p.stdout[p.stdout.index("{"):])
    except Exception:
        return f"{sid} EVAL-ERROR {p.stdout[-200:]} {p.stderr[-200:]}"
    prop = json.load(open(os.path.join(HERE, "seeded", sid, "meta.json")))["property"]
    own = prop in d.get("caught_by", {})
    return f"{sid} {'OK' if d.get('ok') else 'NOT-CONFIRMED'} own-check={'yes' if own else 'NO'} demo0={d.get('demo_unpatched_rc')} apply={d.get('apply_rc')} tests_failed={d.get('tests_failed')} demo1={d.get('demo_patched_rc')} errors={sorted(d.get('analysis_errors', {}))}"


ids = [a for a in sys.argv[1:]] or sorted(x for x in os.listdir(os.path.join(HERE, "seeded")) if x.startswith("S"))
with ThreadPoolExecutor(max_workers=8) as ex:
    for line in ex.map(one, ids):
        print(line, flush=True)
