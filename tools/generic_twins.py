#!/usr/bin/env python3
"""Whole-program behaviour-preserving transforms (generic twins) and what every check says about them.

  rename-locals : every local variable (not parameters, not attributes) of every function gets a suffix
  reformat      : ast.unparse of every module (also part of every thorough run)
usage: tools/generic_twins.py rename-locals|reformat
"""
import ast
import contextlib
import importlib
import io
import os
import sys

HERE = os.path.dirname(os.path.dirname(os.path.abspath(__file__)))
sys.path.insert(0, HERE)
from sa.core import AnalysisError, Repo  # noqa: E402
from sa.report import Context, load_known  # noqa: E402


class RenameLocals(ast.NodeTransformer):
    def _locals(self, fn):
        params = {a.arg for a in fn.args.args + fn.args.kwonlyargs + fn.args.posonlyargs}
        if fn.args.vararg:
            params.add(fn.args.vararg.arg)
        if fn.args.kwarg:
            params.add(fn.args.kwarg.arg)
        stored, declared = set(), set()
        for n in ast.walk(fn):
            if isinstance(n, ast.Name) and isinstance(n.ctx, (ast.Store, ast.Del)):
                stored.add(n.id)
            if isinstance(n, (ast.Global, ast.Nonlocal)):
                declared |= set(n.names)
            if isinstance(n, (ast.FunctionDef, ast.AsyncFunctionDef, ast.ClassDef)) and n is not fn:
                stored.discard(n.name)
        return stored - params - declared - {"_"}

    def visit_FunctionDef(self, fn):
        loc = self._locals(fn)
        for n in ast.walk(fn):
            if isinstance(n, ast.Name) and n.id in loc:
                n.id = n.id + "_r"
        return fn

    visit_AsyncFunctionDef = visit_FunctionDef


class SwapBranches(ast.NodeTransformer):
    """if c: A else: B  ->  if not c: B else: A   (only plain if/else, not elif chains)"""
    def visit_If(self, node):
        self.generic_visit(node)
        if node.orelse and not (len(node.orelse) == 1 and isinstance(node.orelse[0], ast.If)):
            node.test = ast.UnaryOp(op=ast.Not(), operand=node.test)
            node.body, node.orelse = node.orelse, node.body
        return node


FLIP = {ast.Lt: ast.Gt, ast.Gt: ast.Lt, ast.LtE: ast.GtE, ast.GtE: ast.LtE, ast.Eq: ast.Eq, ast.NotEq: ast.NotEq}


class FlipCompares(ast.NodeTransformer):
    """a < b -> b > a, a == b -> b == a (single-operator comparisons)"""
    def visit_Compare(self, node):
        self.generic_visit(node)
        if len(node.ops) == 1 and type(node.ops[0]) in FLIP:
            node.left, node.comparators = node.comparators[0], [node.left]
            node.ops = [FLIP[type(node.ops[0])]()]
        return node


def main():
    mode = sys.argv[1]
    base = Repo("/repo")
    ov = {}
    for rel, m in base.modules.items():
        if rel.startswith(("tests/", "scripts/", "experiments/")):
            continue
        tree = ast.parse(m.source)
        if mode == "rename-locals":
            for cls_or_fn in ast.walk(tree):
                pass
            # only outermost functions (methods and module functions); nested defs are renamed along with their parent
            def outer(node):
                for ch in ast.iter_child_nodes(node):
                    if isinstance(ch, (ast.FunctionDef, ast.AsyncFunctionDef)):
                        RenameLocals().visit_FunctionDef(ch)
                    else:
                        outer(ch)
            outer(tree)
        elif mode == "swap-branches":
            tree = ast.fix_missing_locations(SwapBranches().visit(tree))
        elif mode == "flip-compares":
            tree = ast.fix_missing_locations(FlipCompares().visit(tree))
        ov[rel] = ast.unparse(tree) + "\n"
    if "--emit" in sys.argv:
        out = sys.argv[sys.argv.index("--emit") + 1]
        for rel, src in ov.items():
            p = os.path.join(out, rel)
            os.makedirs(os.path.dirname(p), exist_ok=True)
            open(p, "w").write(src)
        return
    repo = Repo("/repo", ov)
    for i in range(1, 20):
        p = f"C{i:02d}"
        mod = importlib.import_module(f"sa.rules.{p.lower()}")
        ctx = Context(p, "quick", 0, repo)
        try:
            with contextlib.redirect_stdout(io.StringIO()):
                mod.run(ctx)
        except AnalysisError as e:
            print(p, "ANALYSIS-ERROR", str(e)[:120])
            continue
        known = {k["key"] for k in load_known() if k.get("property") == p}
        new = [v for v in ctx.violations if v["key"] not in known]
        print(p, "violations", len(new), "cannot-decide" if (ctx.deferred_errors and not new) else "", [v["key"][:100] for v in new[:4]], ctx.deferred_errors[:2] if not new else "")


if __name__ == "__main__":
    main()
