#!/usr/bin/env python3
"""Whole-program behaviour-preserving transforms (generic twins) and what every check says about them.

The transforms live in sa/twins.py (reformat, rename-locals, swap-branches, flip-compares, restructure); all of them are also part
of every thorough run. usage: tools/generic_twins.py <mode> [--emit <dir>]
"""
import ast
import contextlib
import importlib
import io
import os
import sys

HERE = os.path.dirname(os.path.dirname(os.path.abspath(__file__)))
sys.path.insert(0, HERE)
from sa.core import AnalysisError, Repo  # noqa: E402
from sa.report import Context, load_known  # noqa: E402


def main():
    mode = sys.argv[1]
    base = Repo("/repo")
    from sa import twins
    ov = twins.program(base.modules, mode)
    if "--emit" in sys.argv:
        out = sys.argv[sys.argv.index("--emit") + 1]
        for rel, src in ov.items():
            p = os.path.join(out, rel)
            os.makedirs(os.path.dirname(p), exist_ok=True)
            open(p, "w").write(src)
        return
    repo = Repo("/repo", ov)
    for i in range(1, 20):
        p = f"C{i:02d}"
        mod = importlib.import_module(f"sa.rules.{p.lower()}")
        ctx = Context(p, "quick", 0, repo)
        try:
            with contextlib.redirect_stdout(io.StringIO()):
                mod.run(ctx)
        except AnalysisError as e:
            print(p, "ANALYSIS-ERROR", str(e)[:120])
            continue
        known = {k["key"] for k in load_known() if k.get("property") == p}
        new = [v for v in ctx.violations if v["key"] not in known]
        print(p, "violations", len(new), "cannot-decide" if (ctx.deferred_errors and not new) else "", [v["key"][:100] for v in new[:4]], ctx.deferred_errors[:2] if not new else "")


if __name__ == "__main__":
    main()
