#!/usr/bin/env python3
"""Run the real normalisation (sa/alpha.normalise: helper inlining, rename, normal form, piecewise canonicalisation) on a patch of
refactors/ or seeded/ and show, per function that is still not the pinned function afterwards, a diff against the pinned source
and a diff of the normal forms. usage: tools/norm_diff.py <id> [function-substring]"""
import ast, difflib, json, os, sys
HERE = os.path.dirname(os.path.dirname(os.path.abspath(__file__)))
sys.path.insert(0, HERE)
os.environ.setdefault("VERIF_CANON_DEBUG", "1")
from sa import seeded, nf, alpha  # noqa
rid = sys.argv[1]
sub = sys.argv[2] if len(sys.argv) > 2 else ""
d = os.path.join(HERE, "refactors", rid)
if not os.path.isdir(d):
    d = os.path.join(HERE, "seeded", rid)
ov = seeded.apply_patch("/repo", open(os.path.join(d, "patch.diff")).read())
ref = json.load(open(alpha.REF_PATH))
sigs = ref["__sigs__"]
for rel, src in ov.items():
    tree = ast.parse(src)
    alpha.normalise(tree, rel, src)
    for q, fn in alpha.iter_functions(tree):
        e = ref.get(rel, {}).get(q)
        if not e:
            print("NEW FUNCTION (not inlined)", rel, q)
            continue
        if ast.unparse(fn) == e["src"] or sub not in q:
            continue
        print("====", rel, q, "still differs after normalisation")
        print("\n".join(difflib.unified_diff(e["src"].splitlines(), ast.unparse(fn).splitlines(), "pinned", "normalised", lineterm="", n=1)))
        a = nf.nf_text(fn, sigs)
        b = nf.nf_text(ast.parse(e["src"]).body[0], sigs)
        print("---- normal forms", "EQUAL" if a == b else "differ")
        if a != b:
            print("\n".join(difflib.unified_diff(b.splitlines(), a.splitlines(), "pinned-nf", "normalised-nf", lineterm="", n=1)))
