#!/bin/sh
# Apply each seeded change to /repo itself, run the checks recorded in its meta.json, undo it straight afterwards.
# usage: tools/seed_on_repo.sh [seed id ...]
cd "$(dirname "$0")/.." || exit 2
[ -n "$(git -C /repo status --porcelain --untracked-files=no)" ] && { echo "/repo is not clean"; exit 2; }
ids="$*"; [ -z "$ids" ] && ids=$(ls seeded | grep -v README)
for id in $ids; do
  props=$(/venv/bin/python -c "import json;print(' '.join(json.load(open('seeded/$id/meta.json'))['caught_by']))" 2>/dev/null)
  git -C /repo apply "$PWD/seeded/$id/patch.diff" || { echo "$id: patch does not apply"; continue; }
  for p in $props; do
    VERIF_NO_EVIDENCE=1 ./check "$p" --tier quick >/tmp/seed_on_repo.$$ 2>&1; rc=$?
    echo "$id $p exit=$rc $(grep -c '^VIOLATION' /tmp/seed_on_repo.$$) VIOLATION line(s)"
  done
  git -C /repo checkout -- .
done
rm -f /tmp/seed_on_repo.$$ out/*.violations.json
git -C /repo status --porcelain --untracked-files=no
