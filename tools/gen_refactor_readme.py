#!/usr/bin/env python3
"""Write refactors/README.md from the meta.json files (one line per refactoring: property, first-run verdict, verdict now, summary)."""
import glob, json, os
HERE = os.path.dirname(os.path.dirname(os.path.abspath(__file__)))
rows = []
for mp in sorted(glob.glob(os.path.join(HERE, "refactors", "*", "meta.json"))):
    m = json.load(open(mp))
    now = (m.get("checks") or {}).get("verdict", "?")
    if m.get("expected") == "cannot-decide":
        now += " (recorded limit)"
    rows.append((m["id"], m.get("property", ""), m["first_run"]["verdict"], now, " ".join((m.get("summary") or "").split())[:200]))
out = ["# Independent behaviour-preserving refactorings", "",
       "Each directory holds `patch.diff` (applies to /repo HEAD), `demo.py` + `out_before.txt` (the demonstration prints exactly this before and after),",
       "and `meta.json` (who confirmed it and how, the verdict of all 19 checks when it arrived - `first_run` - and now - `checks`).",
       "DESIGN.md section 10 explains the protocol; `tools/refactor_matrix.py` re-runs everything in memory; the thorough tier of a property",
       "re-applies the refactorings written for it and fails if one is reported.", "",
       "| id | property | first run | now | what was refactored |", "|---|---|---|---|---|"]
for r in rows:
    out.append("| " + " | ".join(x.replace("|", "/") for x in r) + " |")
from collections import Counter
for rnd in ("R1", "R2", "R3"):
    c1 = Counter(r[2] for r in rows if r[0].startswith(rnd))
    c2 = Counter(r[3].split(" ")[0] for r in rows if r[0].startswith(rnd))
    out += ["", f"Round {rnd[1]}: first run {dict(c1)}; now {dict(c2)}."]
open(os.path.join(HERE, "refactors", "README.md"), "w").write("\n".join(out) + "\n")
print(len(rows), "refactorings")
