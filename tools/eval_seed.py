#!/usr/bin/env python3
"""Confirm a seeded change and run every check against it.

usage: tools/eval_seed.py <dir with patch.diff, demo.py, meta.json> [--keep <seed id>]

1. fresh scratch worktree of /repo's HEAD under /tmp (removed afterwards)
2. demo on the unchanged tree must exit 0
3. patch applies; the pinned test suite passes with it; demo exits non-zero
4. every check (quick tier) is run with --repo <scratch> and VERIF_NO_EVIDENCE=1; reports which properties raise VIOLATION
"""
import json
import os
import re
import shutil
import subprocess
import sys

VERIF = os.path.dirname(os.path.dirname(os.path.abspath(__file__)))


def sh(cmd, cwd=None, env=None, timeout=1800):
    p = subprocess.run(cmd, shell=True, cwd=cwd, env=env, capture_output=True, text=True, timeout=timeout)
    return p.returncode, p.stdout + p.stderr


def main():
    src = os.path.abspath(sys.argv[1])
    name = os.path.basename(os.path.dirname(src)) if os.path.basename(src) == "SEED" else os.path.basename(src)
    wt = f"/tmp/evalwt_{name}_{os.getpid()}"
    out = {"seed": src, "ok": False}
    rc, o = sh(f"git -C /repo worktree add -q --detach {wt} HEAD")
    if rc:
        print(o)
        return 2
    try:
        # keep the demo where its author ran it (some demos locate the tree relative to their own path)
        demo_rel = "SEED/demo.py"
        parts = src.split(os.sep)
        if "SEED" in parts and parts[-1] != "SEED":
            demo_rel = os.sep.join(parts[parts.index("SEED"):] + ["demo.py"])
        mp = os.path.join(src, "meta.json")
        if os.path.exists(mp):
            demo_rel = json.load(open(mp)).get("demo_path", demo_rel)
        out["demo_path"] = demo_rel
        os.makedirs(os.path.dirname(f"{wt}/{demo_rel}"), exist_ok=True)
        shutil.copy(f"{src}/demo.py", f"{wt}/{demo_rel}")
        env = dict(os.environ, PYTHONPATH=wt, PYTHONDONTWRITEBYTECODE="1")
        fast = "--checks-only" in sys.argv
        rc0, o0 = (0, "") if fast else sh(f"/venv/bin/python {demo_rel}", cwd=wt, env=env, timeout=900)
        out["demo_unpatched_rc"] = rc0
        rca, oa = sh(f"git apply --exclude='SEED/*' {src}/patch.diff", cwd=wt)
        out["apply_rc"] = rca
        if rca:
            out["apply_out"] = oa[-500:]
        rct, ot = (0, "") if fast else sh("/venv/bin/python -m pytest -q -p no:cacheprovider --timeout=900 -q 2>&1 | tail -3", cwd=wt, env=dict(os.environ, PYTHONDONTWRITEBYTECODE="1"))
        out["tests_tail"] = ot.strip().splitlines()[-1:] if ot.strip() else []
        out["tests_failed"] = bool(re.search(r"\bfailed\b|\berror", ot))
        rc1, o1 = (1, "") if fast else sh(f"/venv/bin/python {demo_rel}", cwd=wt, env=env, timeout=900)
        out["demo_patched_rc"] = rc1
        out["demo_patched_tail"] = o1.strip().splitlines()[-2:]
        shutil.rmtree(f"{wt}/SEED", ignore_errors=True)  # the demo is not part of the change
        caught = {}
        errors = {}
        for i in range(1, 20):
            pid = f"C{i:02d}"
            rc, o = sh(f"./check {pid} --tier quick --repo {wt}", cwd=VERIF, env=dict(os.environ, VERIF_NO_EVIDENCE="1"))
            if rc == 1:
                keys = re.findall(r"\[(C\d\d\.R[^|\]]*)\|", "\n".join(l for l in o.splitlines() if not l.startswith("KNOWN-FINDING")))
                caught[pid] = sorted(set(keys))[:6]
            elif rc == 2:
                errors[pid] = [l for l in o.splitlines() if "ANALYSIS-ERROR" in l][:1]
        out["caught_by"] = caught
        out["analysis_errors"] = errors
        out["ok"] = rc0 == 0 and rca == 0 and not out["tests_failed"] and rc1 != 0
    finally:
        sh(f"git -C /repo worktree remove --force {wt}")
        sh(f"rm -f {VERIF}/out/*.violations.json")
    print(json.dumps(out, indent=1))
    return 0


if __name__ == "__main__":
    sys.exit(main())
