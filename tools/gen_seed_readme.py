#!/usr/bin/env python3
"""Regenerate seeded/README.md (which check catches which seeded change) from the meta.json files."""
import glob
import json
import os

HERE = os.path.dirname(os.path.dirname(os.path.abspath(__file__)))
rows = [json.load(open(f)) for f in sorted(glob.glob(os.path.join(HERE, "seeded", "*", "meta.json")))]
out = ["# Seeded changes", "",
       "Each directory holds one change that breaks a property while the tree still imports and the pinned 209-test suite still",
       "passes. They were produced by independent sub-agents that were given only the text of one property and a scratch git",
       "worktree of /repo (prompts: `PROMPT.round2.txt` ... `PROMPT.round4.txt`; round 1 asked for one change, round 2 for three of",
       "different kinds, round 3 for one outside the anchored code, one subtle slip inside it, and one pair of cooperating edits or",
       "a stale cache / aliasing copy, round 4 for one in a less central sibling implementation, one shape-preserving semantic slip and one ordering / lifetime mistake). A change was kept only after `tools/eval_seed.py` confirmed it in a fresh scratch worktree: demo passes on the",
       "unchanged tree, patch applies, test suite passes with it, demo fails with it. None of them is committed to /repo.", "",
       "* `patch.diff` - the change (applies to /repo with `git -C /repo apply`; undo with `git -C /repo checkout -- .`)",
       "* `demo.py` - the demonstration (`meta.json: demo_path` says where it has to live relative to the tree root)",
       "* `meta.json` - property, what breaks, what it needs to manifest, what was run, which rules caught it on the first run",
       "  (`first_run_*`) and which catch it now (`caught_by`, rewritten by `tools/seed_matrix.py --write`)", "",
       "`tools/seed_on_repo.sh` applies each patch to /repo, runs the checks listed in `caught_by`, and undoes it straight away.",
       "`./check <ID> --tier thorough` re-applies every patch in memory (`sa/seeded.py`) and fails if a change recorded as caught",
       "is no longer reported.", "",
       f"{len(rows)} changes; first run: "
       f"{sum(1 for r in rows if r['first_run_outcome'] == 'caught')} caught by the property's own check, "
       f"{sum(1 for r in rows if r['first_run_outcome'].startswith('caught by another'))} only by another property's check, "
       f"{sum(1 for r in rows if r['first_run_outcome'].startswith('analysis-error'))} ended in ANALYSIS-ERROR (exit 2, no verdict), "
       f"{sum(1 for r in rows if r['first_run_outcome'] == 'missed')} missed. After strengthening every change is reported by the check of its own property.", "",
       "| id | property | file(s) | first run | caught now by | strengthening |", "|---|---|---|---|---|---|"]
for r in rows:
    now = "; ".join(f"{p}: {', '.join(v)}" for p, v in sorted(r.get("caught_by", {}).items()))
    first = r["first_run_outcome"]
    if r.get("first_run_caught_by"):
        first += " (" + "; ".join(f"{', '.join(v)}" for p, v in sorted(r["first_run_caught_by"].items())) + ")"
    out.append(f"| {r['id']} | {r['property']} | {', '.join(os.path.basename(f) for f in r.get('files', []))} | {first} | {now} | {r.get('strengthening', '')} |")
out += ["", "## What each change does", ""]
for r in rows:
    out.append(f"* **{r['id']}** ({r['property']}): {r['breaks']}  \n  *Needs:* {r['needs']}")
out += ["", "## Discarded", "",
        "* S2-C13-2 (`WorkerPool.place_task` without a strategy takes the LAST fitting strategy): confirmed against the tree of its",
        "  time, where LSF debited its scratch pool through `place_task(task)`. That call was itself a defect (F19) and was repaired;",
        "  afterwards no policy reaches the changed branch, the demo passes with the patch, and the change no longer breaks C13.",
        "* S2-C06-2 (`Graph.depth_first` without the re-test after the pop) and S2-C18-2 (join released only when every non-cancelled",
        "  parent is complete): both demos relied on `TaskGraph.cancel` stopping at the first spared join. That behaviour was itself a",
        "  defect (F21) and was repaired (the cascade no longer uses `depth_first`, and it no longer leaves inner joins behind), after",
        "  which `tools/reconfirm_seeds.py` showed both demos passing with the patch applied. (S2-C06-2 is still reported by C17.R1.)", ""]
open(os.path.join(HERE, "seeded", "README.md"), "w").write("\n".join(out))
print(len(rows), "seeds")
