#!/usr/bin/env python3
"""(Re)generate reference/locals.json: the local-variable naming of every function of the analysed tree (see sa/alpha.py).
Run after a deliberate change of /repo that renames locals the rules refer to."""
import ast
import json
import os
import sys

HERE = os.path.dirname(os.path.dirname(os.path.abspath(__file__)))
sys.path.insert(0, HERE)
from sa import alpha  # noqa: E402

root = os.environ.get("VERIF_REPO", "/repo")
mods = []
for dp, dn, fns in os.walk(root):
    dn[:] = [d for d in dn if d not in (".git", "__pycache__", "erdos_sim.egg-info", "tests", "scripts", "experiments", "extern", "build")]
    for fn in fns:
        if fn.endswith(".py"):
            p = os.path.join(dp, fn)
            try:
                src = open(p, encoding="utf-8").read()
                mods.append((os.path.relpath(p, root), ast.parse(src), src))
            except SyntaxError:
                pass
ref = alpha.build_reference(mods)
os.makedirs(os.path.join(HERE, "reference"), exist_ok=True)
with open(alpha.REF_PATH, "w") as fh:
    json.dump(ref, fh, indent=0, sort_keys=True)
print(sum(len(v) - 1 for v in ref.values()), "functions in", len(ref), "modules")
