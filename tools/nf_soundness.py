#!/usr/bin/env python3
"""Soundness probe of the normal form (sa/nf.py): generic semantic mutants of every pinned function (comparison operator changes,
negated conditions, and<->or, deleted statements, integer constants +1, continue<->break, flipped boolean returns -- the operators of
tools/mutation_sweep.py) must NOT have the normal form of the pinned function: a mutant with an equal normal form would be shown to the
rules as the pinned function. Every equal pair is printed for triage (an equal pair is acceptable only when the mutant is an
equivalent mutant). Non-gating hole finder; usage: tools/nf_soundness.py [--jobs 16] [module-substring]
"""
import ast
import json
import os
import sys
from concurrent.futures import ProcessPoolExecutor

HERE = os.path.dirname(os.path.dirname(os.path.abspath(__file__)))
sys.path.insert(0, HERE)
sys.path.insert(0, os.path.join(HERE, "tools"))
from sa import alpha, nf  # noqa: E402
import mutation_sweep as ms  # noqa: E402


def one(args):
    rel, q, src, sigs = args
    fn0 = ast.parse(src).body[0]
    try:
        base = nf.nf_text(fn0, sigs)
    except Exception as exc:
        return rel, q, 0, [("NF-ERROR", repr(exc)[:100])]
    equal = []
    n = 0
    for desc, spec in list(ms.sites(fn0)):
        tree = ast.parse(src)
        fn = tree.body[0]
        victim = ms.apply(fn, spec)
        if victim is not None:
            kind = spec[0]
            new = ast.Pass() if kind == "del" else (ast.Break() if kind == "c2b" else ast.Continue())
            if not ms.replace_stmt(tree, victim, new):
                continue
        ast.fix_missing_locations(tree)
        try:
            msrc = ast.unparse(tree)
            compile(msrc, rel, "exec")
        except Exception:
            continue
        if msrc == src:
            continue
        n += 1
        try:
            t = nf.nf_text(ast.parse(msrc).body[0], sigs)
        except Exception as exc:
            continue
        if t == base:
            equal.append((desc, ""))
    return rel, q, n, equal


def main():
    ref = json.load(open(alpha.REF_PATH))
    sigs = ref["__sigs__"]
    sub = next((a for a in sys.argv[1:] if not a.startswith("--") and not a.isdigit()), "")
    jobs = []
    for rel, d in ref.items():
        if rel.startswith("__") or sub not in rel:
            continue
        for q, e in d.items():
            if not q.startswith("__") and "src" in e:
                jobs.append((rel, q, e["src"], sigs))
    total = eq = 0
    with ProcessPoolExecutor(max_workers=16) as ex:
        for rel, q, n, equal in ex.map(one, jobs, chunksize=4):
            total += n
            for desc, _ in equal:
                eq += 1
                print(f"NF-EQUAL {rel}::{q}  {desc}")
    print(f"functions {len(jobs)} mutants {total} nf-equal {eq}")


if __name__ == "__main__":
    main()
