#!/usr/bin/env python3
"""Apply behaviour-preserving refactorings (refactors/<id>/patch.diff, or a directory given on the command line) in memory and
run every property's rules: a VIOLATION on one of them is a false alarm, an ANALYSIS-ERROR a refusal to decide.

usage: tools/refactor_matrix.py [--write] [<dir with patch.diff> ...]
"""
import json
import os
import sys
from concurrent.futures import ProcessPoolExecutor

HERE = os.path.dirname(os.path.dirname(os.path.abspath(__file__)))
sys.path.insert(0, HERE)
from sa import seeded  # noqa: E402

PROPS = [f"C{i:02d}" for i in range(1, 20)]
ROOT = os.environ.get("VERIF_REPO", "/repo")
RDIR = os.path.join(HERE, "refactors")


def one(args):
    rid, prop, text = args
    ov = seeded.apply_patch(ROOT, text)
    if ov is None:
        return rid, prop, "stale", [], ""
    st, keys, err = seeded.run_on_variant(prop, ROOT, ov)
    return rid, prop, st, sorted(set(keys)), err


def main():
    dirs = [a for a in sys.argv[1:] if not a.startswith("--") and os.path.isdir(a)]
    only = [a for a in sys.argv[1:] if not a.startswith("--") and not os.path.isdir(a)]
    items = []
    if dirs:
        for d in dirs:
            items.append((os.path.basename(os.path.dirname(d.rstrip("/"))) + "-" + os.path.basename(d.rstrip("/")), open(os.path.join(d, "patch.diff")).read(), d))
    else:
        for name in sorted(os.listdir(RDIR)) if os.path.isdir(RDIR) else []:
            pp = os.path.join(RDIR, name, "patch.diff")
            if os.path.isfile(pp) and (not only or any(name.startswith(o) or o in name for o in only)):
                items.append((name, open(pp).read(), os.path.join(RDIR, name)))
    jobs = [(rid, p, text) for rid, text, _d in items for p in PROPS]
    res = {}
    with ProcessPoolExecutor(max_workers=16) as ex:
        for rid, prop, st, keys, err in ex.map(one, jobs, chunksize=2):
            d = res.setdefault(rid, {"violations": {}, "errors": {}, "stale": False})
            if st == "violations":
                d["violations"][prop] = keys[:3]
            elif st == "analysis-error":
                d["errors"][prop] = err[:140]
            elif st == "stale":
                d["stale"] = True
    for rid, _t, d in items:
        r = res[rid]
        verdict = "STALE" if r["stale"] else ("FALSE-ALARM" if r["violations"] else ("cannot-decide" if r["errors"] else "silent"))
        print(rid, verdict, json.dumps(r["violations"])[:300] if r["violations"] else "", json.dumps(r["errors"])[:300] if r["errors"] else "")
        if "--write" in sys.argv and os.path.isdir(d):
            mp = os.path.join(d, "meta.json")
            meta = json.load(open(mp)) if os.path.exists(mp) else {}
            meta["checks"] = {"verdict": verdict, "violations": r["violations"], "analysis_errors": r["errors"]}
            with open(mp, "w") as fh:
                json.dump(meta, fh, indent=1)
                fh.write("\n")


if __name__ == "__main__":
    main()
