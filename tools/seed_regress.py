#!/usr/bin/env python3
"""Compare a fresh in-memory seed matrix with the `caught_by` recorded in seeded/<id>/meta.json: a seed no longer reported by its own
property, or a (seed, property) pair that was recorded and is gone, is printed. usage: tools/seed_regress.py"""
import json, os, sys
from concurrent.futures import ProcessPoolExecutor
HERE = os.path.dirname(os.path.dirname(os.path.abspath(__file__)))
sys.path.insert(0, HERE)
from sa import seeded  # noqa: E402
ROOT = os.environ.get("VERIF_REPO", "/repo")

def one(a):
    sid, prop, text = a
    ov = seeded.apply_patch(ROOT, text)
    if ov is None:
        return sid, prop, "stale", []
    st, keys, err = seeded.run_on_variant(prop, ROOT, ov)
    return sid, prop, st, sorted({k.split("|")[0] for k in keys})

def main():
    jobs = [(s["id"], p, s["patch_text"]) for s in seeded.seeds() for p in s.get("caught_by", {})]
    bad = 0
    with ProcessPoolExecutor(max_workers=16) as ex:
        for sid, prop, st, rules in ex.map(one, jobs, chunksize=2):
            if st != "violations":
                print("LOST", sid, prop, st)
                bad += 1
    print("pairs", len(jobs), "lost", bad)
    return 1 if bad else 0

if __name__ == "__main__":
    sys.exit(main())
