#!/usr/bin/env python3
"""Show, for a patch (refactors/<id> or seeded/<id>), the functions that differ from the reference and a diff of the normal forms.
usage: tools/nf_diff.py <id> [function-substring]"""
import ast, difflib, json, os, sys
HERE = os.path.dirname(os.path.dirname(os.path.abspath(__file__)))
sys.path.insert(0, HERE)
from sa import seeded, nf, alpha, canon  # noqa
rid = sys.argv[1]
sub = sys.argv[2] if len(sys.argv) > 2 else ""
d = os.path.join(HERE, "refactors", rid)
if not os.path.isdir(d):
    d = os.path.join(HERE, "seeded", rid)
ov = seeded.apply_patch("/repo", open(os.path.join(d, "patch.diff")).read())
ref = json.load(open(alpha.REF_PATH))
sigs = ref["__sigs__"]
for rel, src in ov.items():
    tree = ast.parse(src)
    for q, fn in alpha.iter_functions(tree):
        e = ref.get(rel, {}).get(q)
        if not e:
            print("NEW FUNCTION", rel, q)
            continue
        if ast.unparse(fn) == e["src"] or sub not in q:
            continue
        a = nf.nf_text(fn, sigs)
        b = nf.nf_text(ast.parse(e["src"]).body[0], sigs)
        print("====", rel, q, "EQUAL" if a == b else "DIFFERENT")
        if a != b:
            print("\n".join(difflib.unified_diff(b.splitlines(), a.splitlines(), "reference-nf", "variant-nf", lineterm="", n=2)))
