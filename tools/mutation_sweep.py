#!/usr/bin/env python3
"""Generic AST mutation sweep over the functions a property's rules analyse (hole finding, NOT a gate).

For every function listed in the property's evidence (`functions_analysed`) generic operators are applied one site at
a time (comparison operator changes, condition negation, and/or swap, statement deletion, integer constant +1,
`continue`/`break` swap, boolean return flip) to an in-memory variant of the tree, and the property's rules are run on
it. The outcome per mutant is caught / analysis-error / survived. Survivors are candidates for triage: either
behaviour-preserving or irrelevant to the property, or a hole in the rules.

usage: tools/mutation_sweep.py C06 [--max 400] [--jobs 16]  -> writes out/sweep_C06.json
"""
import ast
import contextlib
import importlib
import io
import json
import os
import random
import sys
from concurrent.futures import ProcessPoolExecutor

HERE = os.path.dirname(os.path.dirname(os.path.abspath(__file__)))
sys.path.insert(0, HERE)

from sa.core import AnalysisError, Repo  # noqa: E402
from sa.report import Context, load_known  # noqa: E402

CMP_SWAPS = {ast.Lt: [ast.LtE, ast.GtE], ast.LtE: [ast.Lt, ast.Gt], ast.Gt: [ast.GtE, ast.LtE], ast.GtE: [ast.Gt, ast.Lt],
             ast.Eq: [ast.NotEq], ast.NotEq: [ast.Eq], ast.In: [ast.NotIn], ast.NotIn: [ast.In], ast.Is: [ast.IsNot], ast.IsNot: [ast.Is]}


def sites(fn):
    """Yield (description, spec) for every mutation site in the function."""
    idx = 0
    for n in ast.walk(fn):
        idx += 1
        if isinstance(n, ast.Compare) and len(n.ops) == 1 and type(n.ops[0]) in CMP_SWAPS:
            for new in CMP_SWAPS[type(n.ops[0])]:
                yield (f"L{n.lineno} cmp {type(n.ops[0]).__name__}->{new.__name__}: {ast.unparse(n)[:60]}", ("cmp", idx, new.__name__))
        if isinstance(n, (ast.If, ast.While)) and not isinstance(n.test, ast.Constant):
            yield (f"L{n.lineno} negate condition: {ast.unparse(n.test)[:60]}", ("neg", idx, None))
        if isinstance(n, ast.BoolOp):
            yield (f"L{n.lineno} and<->or: {ast.unparse(n)[:60]}", ("bool", idx, None))
        if isinstance(n, ast.Expr) and isinstance(n.value, ast.Call):
            d = ast.unparse(n.value.func)
            if "_logger" in d and "csv" not in d:
                continue
            yield (f"L{n.lineno} delete statement: {ast.unparse(n)[:60]}", ("del", idx, None))
        if isinstance(n, (ast.Assign, ast.AugAssign)) and not isinstance(getattr(n, "value", None), ast.Constant):
            yield (f"L{n.lineno} delete statement: {ast.unparse(n)[:60]}", ("del", idx, None))
        if isinstance(n, ast.Constant) and isinstance(n.value, int) and not isinstance(n.value, bool) and abs(n.value) <= 3:
            yield (f"L{n.lineno} const {n.value}->{n.value + 1}", ("const", idx, 1))
        if isinstance(n, ast.Continue):
            yield (f"L{n.lineno} continue->break", ("c2b", idx, None))
        if isinstance(n, ast.Break):
            yield (f"L{n.lineno} break->continue", ("b2c", idx, None))
        if isinstance(n, ast.Return) and isinstance(n.value, ast.Constant) and isinstance(n.value.value, bool):
            yield (f"L{n.lineno} return {n.value.value}->{not n.value.value}", ("ret", idx, None))


def apply(fn, spec):
    kind, target, arg = spec
    idx = 0
    for n in ast.walk(fn):
        idx += 1
        if idx != target:
            continue
        if kind == "cmp":
            n.ops = [getattr(ast, arg)()]
        elif kind == "neg":
            n.test = ast.UnaryOp(op=ast.Not(), operand=n.test)
        elif kind == "bool":
            n.op = ast.Or() if isinstance(n.op, ast.And) else ast.And()
        elif kind == "const":
            n.value = n.value + arg
        elif kind == "ret":
            n.value = ast.Constant(value=not n.value.value)
        elif kind in ("del", "c2b", "b2c"):
            return n
        return None
    return None


def replace_stmt(root, victim, new):
    for p in ast.walk(root):
        for fld in ("body", "orelse", "finalbody"):
            lst = getattr(p, fld, None)
            if isinstance(lst, list) and any(x is victim for x in lst):
                i = [k for k, x in enumerate(lst) if x is victim][0]
                lst[i] = new
                return True
    return False


def locate(tree, qual):
    node = tree
    for name in qual.split("."):
        found = None
        for c in ast.walk(node):
            if isinstance(c, (ast.ClassDef, ast.FunctionDef, ast.AsyncFunctionDef)) and c.name == name and c is not node:
                found = c
                break
        if found is None:
            return None
        node = found
    return node


_BASE = {}


def _base_source(root, rel):
    key = (root, rel)
    if key not in _BASE:
        try:
            _BASE[key] = open(os.path.join(root, rel), encoding="utf-8").read()
        except OSError:
            _BASE[key] = None
    return _BASE[key]


PROPS = [f"C{i:02d}" for i in range(1, 20)]


def mutate(root, rel, qual, spec):
    source = _base_source(root, rel)
    if source is None:
        return None
    tree = ast.parse(source)
    fn = locate(tree, qual)
    if fn is None:
        return None
    victim = apply(fn, spec)
    if victim is not None:
        kind = spec[0]
        new = ast.Pass() if kind == "del" else (ast.Break() if kind == "c2b" else ast.Continue())
        if not replace_stmt(tree, victim, new):
            return None
    ast.fix_missing_locations(tree)
    try:
        src = ast.unparse(tree)
        compile(src, rel, "exec")
    except Exception:
        return None
    return src


_WT = None


def _scratch():
    """One scratch copy of the tree per worker process (outside /repo and /verif), removed by the parent at the end."""
    global _WT
    if _WT is None:
        import subprocess
        _WT = f"/tmp/sweepwt_{os.getpid()}"
        subprocess.run(["rsync", "-a", "--exclude", ".git", "--exclude", "__pycache__", os.environ.get("VERIF_REPO", "/repo") + "/", _WT + "/"], check=True)
    return _WT


def test_one(args):
    """Does the pinned test suite still pass with this mutant? (only those are realistic 'silent' changes)"""
    import subprocess
    _prop, root, rel, qual, spec, desc = args
    src = mutate(root, rel, qual, spec)
    if src is None:
        return (desc, rel, qual, "n/a")
    wt = _scratch()
    path = os.path.join(wt, rel)
    orig = open(path, encoding="utf-8").read()
    try:
        with open(path, "w", encoding="utf-8") as fh:
            fh.write(src)
        try:
            p = subprocess.run(["/venv/bin/python", "-m", "pytest", "-q", "-x", "-p", "no:cacheprovider", "--timeout=120"], cwd=wt,
                               capture_output=True, text=True, timeout=600, env=dict(os.environ, PYTHONDONTWRITEBYTECODE="1", PYTHONPATH=wt))
            ok = p.returncode == 0
        except subprocess.TimeoutExpired:
            ok = False
    finally:
        with open(path, "w", encoding="utf-8") as fh:
            fh.write(orig)
    return (desc, rel, qual, "tests-pass" if ok else "tests-fail")


def run_one(args):
    prop, root, rel, qual, spec, desc = args
    src = mutate(root, rel, qual, spec)
    if src is None:
        return (desc, rel, qual, "n/a", [])
    repo = Repo(root, {rel: src})
    props = PROPS if prop == "ALL" else [prop]
    caught, errors, crashes = [], [], []
    for pr in props:
        try:
            mod = importlib.import_module(f"sa.rules.{pr.lower()}")
            ctx = Context(pr, "quick", 0, repo)
            with contextlib.redirect_stdout(io.StringIO()):
                mod.run(ctx)
            known = {k["key"] for k in load_known() if k.get("property") == pr}
            new_v = [v["key"] for v in ctx.violations if v["key"] not in known]
            if new_v:
                caught.append(new_v[0].split("|")[0])
            elif ctx.deferred_errors:
                errors.append(f"{pr}: {ctx.deferred_errors[0][:60]}")
        except AnalysisError as e:
            errors.append(f"{pr}: {str(e)[:60]}")
        except Exception as e:  # checker crash on a variant
            crashes.append(f"{pr}: {e!r}"[:120])
    if crashes:
        return (desc, rel, qual, "checker-crash", crashes[:2])
    if caught:
        return (desc, rel, qual, "caught", sorted(set(caught))[:4])
    if errors:
        return (desc, rel, qual, "analysis-error", errors[:2])
    return (desc, rel, qual, "survived", [])


def main():
    prop = sys.argv[1]
    if prop == "ALL":
        return main_all()
    mx = int(sys.argv[sys.argv.index("--max") + 1]) if "--max" in sys.argv else 100000
    jobs_n = int(sys.argv[sys.argv.index("--jobs") + 1]) if "--jobs" in sys.argv else 16
    root = os.environ.get("VERIF_REPO", "/repo")
    repo = Repo(root)
    mod = importlib.import_module(f"sa.rules.{prop.lower()}")
    ctx = Context(prop, "quick", 0, repo)
    with contextlib.redirect_stdout(io.StringIO()):
        mod.run(ctx)
    funcs = ctx.analysed["functions"]
    jobs = []
    for f in funcs:
        rel, qual = f.split("::", 1)
        m = repo.modules.get(rel)
        if m is None or "__iteration__" in qual or "__conditional__" in qual:
            continue
        tree = ast.parse(m.source)
        fn = locate(tree, qual)
        if fn is None:
            continue
        for desc, spec in sites(fn):
            jobs.append((prop, root, rel, qual, spec, desc))
    random.Random(0).shuffle(jobs)
    jobs = jobs[:mx]
    with ProcessPoolExecutor(max_workers=jobs_n) as ex:
        results = list(ex.map(run_one, jobs, chunksize=4))
    summary = {"caught": 0, "survived": 0, "analysis-error": 0, "n/a": 0, "checker-crash": 0}
    surv, crashes = [], []
    for desc, rel, qual, status, keys in results:
        summary[status] += 1
        if status == "survived":
            surv.append(f"{rel}::{qual} {desc}")
        if status == "checker-crash":
            crashes.append(f"{rel}::{qual} {desc} -> {keys}")
    out = {"property": prop, "functions": len(funcs), "mutants": len(jobs), "summary": summary, "survivors": sorted(surv), "checker_crashes": crashes}
    os.makedirs(os.path.join(HERE, "out"), exist_ok=True)
    with open(os.path.join(HERE, "out", f"sweep_{prop}.json"), "w") as fh:
        json.dump(out, fh, indent=1)
    print(prop, summary, f"functions={len(funcs)}")


def main_all():
    """ALL <rel>::<Class.func or func> ... : mutate the given functions, run every property's rules."""
    mx = int(sys.argv[sys.argv.index("--max") + 1]) if "--max" in sys.argv else 100000
    jobs_n = int(sys.argv[sys.argv.index("--jobs") + 1]) if "--jobs" in sys.argv else 16
    tag = sys.argv[sys.argv.index("--tag") + 1] if "--tag" in sys.argv else "all"
    root = os.environ.get("VERIF_REPO", "/repo")
    targets = [a for a in sys.argv[2:] if "::" in a or a.endswith(".py")]
    repo = Repo(root)
    jobs = []
    for t in targets:
        rel, _, qual = t.partition("::")
        m = repo.modules.get(rel)
        if m is None:
            print("missing", rel)
            continue
        tree = ast.parse(m.source)
        quals = [qual] if qual else []
        if not qual:
            for c in tree.body:
                if isinstance(c, (ast.FunctionDef, ast.AsyncFunctionDef)):
                    quals.append(c.name)
                elif isinstance(c, ast.ClassDef):
                    for f in ast.walk(c):
                        if isinstance(f, (ast.FunctionDef, ast.AsyncFunctionDef)) and f in c.body:
                            quals.append(f"{c.name}.{f.name}")
                        elif isinstance(f, ast.ClassDef) and f in c.body:
                            for g in f.body:
                                if isinstance(g, (ast.FunctionDef, ast.AsyncFunctionDef)):
                                    quals.append(f"{c.name}.{f.name}.{g.name}")
        for q in quals:
            fn = locate(tree, q)
            if fn is None or q.split(".")[-1] in ("__str__", "__repr__", "to_dot", "log", "log_solver_internal"):
                continue
            for desc, spec in sites(fn):
                jobs.append(("ALL", root, rel, q, spec, desc))
    random.Random(0).shuffle(jobs)
    jobs = jobs[:mx]
    print(f"{len(jobs)} mutants", flush=True)
    with ProcessPoolExecutor(max_workers=jobs_n) as ex:
        results = list(ex.map(run_one, jobs, chunksize=2))
    summary = {"caught": 0, "survived": 0, "analysis-error": 0, "n/a": 0, "checker-crash": 0}
    rows = []
    tested = {}
    if "--tests" in sys.argv:
        surv = [j for j, r in zip(jobs, results) if r[3] == "survived"]
        print(f"running the test suite on {len(surv)} survivors", flush=True)
        import glob
        import shutil
        try:
            with ProcessPoolExecutor(max_workers=jobs_n) as ex:
                for desc, rel, qual, st in ex.map(test_one, surv, chunksize=1):
                    tested[(rel, qual, desc)] = st
        finally:
            for d in glob.glob("/tmp/sweepwt_*"):
                shutil.rmtree(d, ignore_errors=True)
        summary["survived+tests-pass"] = sum(1 for v in tested.values() if v == "tests-pass")
    for desc, rel, qual, status, keys in results:
        summary[status] += 1
        rows.append({"where": f"{rel}::{qual}", "mutant": desc, "status": status, "by": keys, "tests": tested.get((rel, qual, desc), "")})
    out = {"mutants": len(jobs), "summary": summary, "rows": sorted(rows, key=lambda r: (r["where"], r["mutant"]))}
    os.makedirs(os.path.join(HERE, "out"), exist_ok=True)
    with open(os.path.join(HERE, "out", f"sweep_{tag}.json"), "w") as fh:
        json.dump(out, fh, indent=1)
    print(summary)


if __name__ == "__main__":
    main()
