#!/usr/bin/env python3
"""Confirm a sub-agent's behaviour-preserving refactoring and keep it under refactors/<id>/.

usage: tools/intake_refactor.py <dir with patch.diff, demo.py, out_before.txt, meta.json> <id> <property>
Fresh scratch worktree of /repo HEAD: demo on the unchanged tree, patch applies, pinned tests pass, demo on the refactored tree
prints exactly what it printed before. Then the 19 checks are run on the refactored tree (demo removed first).
"""
import json
import os
import re
import shutil
import subprocess
import sys

VERIF = os.path.dirname(os.path.dirname(os.path.abspath(__file__)))


def sh(cmd, cwd=None, env=None, timeout=1800):
    p = subprocess.run(cmd, shell=True, cwd=cwd, env=env, capture_output=True, text=True, timeout=timeout)
    return p.returncode, p.stdout + p.stderr


def main():
    src, rid, prop = os.path.abspath(sys.argv[1]), sys.argv[2], sys.argv[3]
    wt = f"/tmp/refwt_{rid}_{os.getpid()}"
    rc, o = sh(f"git -C /repo worktree add -q --detach {wt} HEAD")
    if rc:
        print(rid, "worktree failed", o[-200:])
        return 2
    try:
        parts = src.split(os.sep)
        rel = os.sep.join(parts[parts.index("REFACTOR"):] + ["demo.py"]) if "REFACTOR" in parts else "REFACTOR/demo.py"
        mp = os.path.join(src, "meta.json")
        am = json.load(open(mp)) if os.path.exists(mp) else {}
        rel = am.get("demo_path", rel)
        os.makedirs(os.path.dirname(f"{wt}/{rel}"), exist_ok=True)
        shutil.copy(f"{src}/demo.py", f"{wt}/{rel}")
        extra = [f for f in os.listdir(src) if f.endswith(".py") and f != "demo.py"]
        for f in extra:  # helper modules a demo imports from its own directory
            shutil.copy(f"{src}/{f}", os.path.join(os.path.dirname(f"{wt}/{rel}"), f))
        env = dict(os.environ, PYTHONPATH=wt, PYTHONDONTWRITEBYTECODE="1", PYTHONHASHSEED="0")
        rc0, before = sh(f"/venv/bin/python {rel} 2>/dev/null", cwd=wt, env=env, timeout=900)
        rca, oa = sh(f"git apply --exclude='REFACTOR/*' {src}/patch.diff", cwd=wt)
        rct, ot = sh("/venv/bin/python -m pytest -q -p no:cacheprovider --timeout=900 -q 2>&1 | tail -3", cwd=wt, env=dict(os.environ, PYTHONDONTWRITEBYTECODE="1"))
        tests_failed = bool(re.search(r"\bfailed\b|\berror", ot))
        rc1, after = sh(f"/venv/bin/python {rel} 2>/dev/null", cwd=wt, env=env, timeout=900)
        same = rc0 == rc1 and before == after and len(before) > 0
        ok = rca == 0 and not tests_failed and same
        if not ok:
            print(rid, "NOT CONFIRMED", {"apply": rca, "tests_failed": tests_failed, "demo_same": same, "rc": (rc0, rc1), "len": (len(before), len(after))})
            return 1
        shutil.rmtree(f"{wt}/REFACTOR", ignore_errors=True)
        viol, errs = {}, {}
        for i in range(1, 20):
            pid = f"C{i:02d}"
            rc, o = sh(f"./check {pid} --tier quick --repo {wt}", cwd=VERIF, env=dict(os.environ, VERIF_NO_EVIDENCE="1"))
            if rc == 1:
                viol[pid] = sorted(set(re.findall(r"\[(C\d\d\.R[^\]]*)\]", "\n".join(l for l in o.splitlines() if not l.startswith("KNOWN-FINDING")))))[:4]
            elif rc == 2:
                errs[pid] = [l for l in o.splitlines() if "ANALYSIS-ERROR" in l][:1]
        dst = os.path.join(VERIF, "refactors", rid)
        os.makedirs(dst, exist_ok=True)
        shutil.copy(f"{src}/patch.diff", f"{dst}/patch.diff")
        shutil.copy(f"{src}/demo.py", f"{dst}/demo.py")
        for f in extra:
            shutil.copy(f"{src}/{f}", f"{dst}/{f}")
        open(f"{dst}/out_before.txt", "w").write(before)
        verdict = "FALSE-ALARM" if viol else ("cannot-decide" if errs else "silent")
        meta = {"id": rid, "property": prop, "origin": "independent sub-agent given only the property text and a scratch worktree of /repo",
                "summary": am.get("summary", ""), "why_equivalent": am.get("why_equivalent", ""), "files": am.get("files", []), "demo_path": rel,
                "confirmed_by": ["tools/intake_refactor.py: fresh scratch worktree of /repo HEAD; demo.py on the unchanged tree; git apply patch.diff; pinned test suite passes; "
                                 "demo.py on the refactored tree prints byte-identical output; all 19 checks with --repo <worktree>; worktree removed"],
                "first_run": {"verdict": verdict, "violations": viol, "analysis_errors": errs}, "keep_silent": True}
        with open(f"{dst}/meta.json", "w") as fh:
            json.dump(meta, fh, indent=1)
            fh.write("\n")
        print(rid, verdict, json.dumps(viol)[:400], list(errs))
        return 0
    finally:
        sh(f"git -C /repo worktree remove --force {wt}")
        sh(f"rm -f {VERIF}/out/*.violations.json")


if __name__ == "__main__":
    sys.exit(main())
