#!/usr/bin/env python3
"""Confirm a sub-agent's seeded change and keep it under seeded/<id>/ (patch.diff, demo.py, meta.json).

usage: tools/intake_seed.py <dir with patch.diff, demo.py, meta.json> <seed id> <property> [--round N]

Runs tools/eval_seed.py (fresh scratch worktree: demo passes unchanged, patch applies, pinned tests pass, demo fails with
the change, all 19 checks against the changed tree) and, when everything is confirmed, stores the seed with the
first-run outcome. Nothing is kept when a step fails.
"""
import json
import os
import shutil
import subprocess
import sys

VERIF = os.path.dirname(os.path.dirname(os.path.abspath(__file__)))


def main():
    src, sid, prop = sys.argv[1], sys.argv[2], sys.argv[3]
    rnd = int(sys.argv[sys.argv.index("--round") + 1]) if "--round" in sys.argv else 2
    p = subprocess.run(["/venv/bin/python", os.path.join(VERIF, "tools", "eval_seed.py"), src], capture_output=True, text=True)
    txt = p.stdout[p.stdout.index("{"):] if "{" in p.stdout else "{}"
    res = json.loads(txt)
    if not res.get("ok"):
        print(sid, "NOT CONFIRMED", {k: res.get(k) for k in ("demo_unpatched_rc", "apply_rc", "tests_failed", "demo_patched_rc", "tests_tail")})
        return 1
    am = json.load(open(os.path.join(src, "meta.json")))
    dst = os.path.join(VERIF, "seeded", sid)
    os.makedirs(dst, exist_ok=True)
    shutil.copy(os.path.join(src, "patch.diff"), os.path.join(dst, "patch.diff"))
    shutil.copy(os.path.join(src, "demo.py"), os.path.join(dst, "demo.py"))
    caught = res.get("caught_by", {})
    errs = res.get("analysis_errors", {})
    outcome = "caught" if prop in caught else ("caught by another property's check only" if caught else
                                               ("analysis-error (exit 2), no VIOLATION line" if errs else "missed"))
    meta = {"id": sid, "round": rnd, "property": prop,
            "origin": "independent sub-agent given only the property text and a scratch worktree of /repo",
            "breaks": am.get("summary", ""), "needs": am.get("needs", ""), "files": am.get("files", []),
            "confirmed_by": ["tools/eval_seed.py <seed dir>: fresh scratch worktree of /repo HEAD under /tmp; demo.py on the unchanged tree -> exit 0; "
                             "git apply patch.diff; pinned test suite (/venv/bin/python -m pytest -q -p no:cacheprovider --timeout=900) -> passes; "
                             f"demo.py -> exit {res.get('demo_patched_rc')}; all 19 checks with --repo <worktree> (demo removed first); worktree removed",
                             "tools/seed_matrix.py: patch applied in memory to /repo's sources, every property's rules run on the variant"],
            "first_run_caught_by": caught, "first_run_analysis_errors": errs, "first_run_outcome": outcome,
            "strengthening": "none needed" if prop in caught else "TODO", "caught_by": caught,
            "demo_path": res.get("demo_path", "SEED/demo.py")}
    with open(os.path.join(dst, "meta.json"), "w") as fh:
        json.dump(meta, fh, indent=1)
        fh.write("\n")
    print(sid, outcome, json.dumps(caught), list(errs))
    return 0


if __name__ == "__main__":
    sys.exit(main())
